#!/usr/bin/env python3
"""Sensitivity suite (DESIGN §2.8): deliberate property-breaking edits of /repo, each applied to the
working tree, checked with the quick tier of the checks that should notice, and reverted.
Usage: tools/selfmut.py [id ...]     (no ids = all).  Never commits anything in /repo."""
import subprocess, sys, os

R = "/repo/src/"
M = [
 ("m01-no-layout-sig-gate", "verifylib.rs",
  "    layout.verify(layout_keys.len() as u32, layout_keys.values())\n",
  "    let _ = layout_keys;\n    Ok(layout.metadata.clone())\n", ["C01", "C08"]),
 ("m02-layout-threshold-1", "verifylib.rs",
  "layout.verify(layout_keys.len() as u32, layout_keys.values())",
  "layout.verify(1, layout_keys.values())", ["C01"]),
 ("m03-count-bad-signature", "models/metadata.rs",
  """                    Err(e) => {
                        warn!(
                            "Bad signature from key ID {:?}: {:?}",
                            pub_key.key_id(),
                            e
                        );
                    }""",
  """                    Err(e) => {
                        warn!(
                            "Bad signature from key ID {:?}: {:?}",
                            pub_key.key_id(),
                            e
                        );
                        signatures_needed -= 1;
                    }""", ["C04", "C01", "C02", "C05", "C09"]),
 ("m04-no-sig-dedup", "models/metadata.rs",
  """        for (key_id, sig) in signatures {""",
  """        let _ = signatures;
        for (key_id, sig) in self.signatures.iter().map(|s| (s.key_id(), s)) {""", ["C04"]),
 ("m05-no-expiry", "verifylib.rs", "    if time < now {", "    if time < now && false {", ["C06", "C08", "C15"]),
 ("m06-expiry-date-only", "verifylib.rs", "    if time < now {", "    if time.date_naive() < now.date_naive() {", ["C06"]),
 ("m07-expiry-drop-offset", "models/layout/mod.rs", "    Ok(dt.with_timezone(&Utc))",
  "    Ok(DateTime::from_naive_utc_and_offset(dt.naive_local(), Utc))", ["C06"]),
 ("m08-no-prefix-match", "verifylib.rs", "        if sig.key_id().prefix() == signer_short_key_id {",
  "        if sig.key_id().prefix() == signer_short_key_id || !signer_short_key_id.is_empty() {", ["C02"]),
 ("m09-no-agreement-check", "verifylib.rs", "    verify_threshold_constraints(&layout, &link_files)?;",
  "    let _ = verify_threshold_constraints;", ["C07"]),
 ("m10-agreement-products-only", "verifylib.rs",
  """            if link.materials != reference_link.materials
                || link.products != reference_link.products
            {""", """            if link.products != reference_link.products {""", ["C07"]),
 ("m11-inspections-before-rules", "verifylib.rs",
  """    verify_all_item_rules(&steps, &reduced_link_files)?;

    // Execute inspection commands (generates link metadata for each inspection)
    let inspection_link_files = run_all_inspections(&layout)?;""",
  """    // Execute inspection commands (generates link metadata for each inspection)
    let inspection_link_files = run_all_inspections(&layout)?;
    verify_all_item_rules(&steps, &reduced_link_files)?;""", ["C08"]),
 ("m12-match-no-digest", "rulelib.rs", "                    if src_artifacts[src_path] == *dst_artifact {",
  "                    if src_artifacts.contains_key(src_path) && !dst_artifact.is_empty() {", ["C03"]),
 ("m13-create-consumes-all", "rulelib.rs",
  """                ArtifactRule::Create(_) => {
                    filtered.intersection(&created).cloned().collect()
                }""", """                ArtifactRule::Create(_) => filtered.clone(),""", ["C03"]),
 ("m14-short-read-is-eof", "crypto.rs", "                for context in hashes.values_mut() {\n                    context.update(&buf[0..read_bytes]);\n                }\n",
  "                for context in hashes.values_mut() {\n                    context.update(&buf[0..read_bytes]);\n                }\n                if read_bytes < buf.len() {\n                    break;\n                }\n", ["C18"]),
 ("m15-products-before-command", "runlib.rs",
  """    // Execute commands provided in cmd_args
    let byproducts = run_command(cmd_args, run_dir)?;

    // Record Products: Given the product_paths, recursively traverse and record files in given path(s)
    let products =
        record_artifacts(product_paths, hash_algorithms, lstrip_paths)?;""",
  """    // Record Products: Given the product_paths, recursively traverse and record files in given path(s)
    let products =
        record_artifacts(product_paths, hash_algorithms, lstrip_paths)?;

    // Execute commands provided in cmd_args
    let byproducts = run_command(cmd_args, run_dir)?;""", ["C18"]),
 ("m16-sublayout-links-from-parent", "verifylib.rs",
  "                        Path::new(link_dir).join(&sub_link_dir);", "                        Path::new(link_dir).join(\"\");", ["C15"]),
 ("m17-sublayout-all-keys", "verifylib.rs",
  "                    layout_key_dict.insert(keyid.to_owned(), pubkey.clone());",
  "                    layout_key_dict.insert(keyid.to_owned(), pubkey.clone());\n                    layout_key_dict.extend(layout.keys.clone());", ["C15"]),
 ("m18-unordered-representative", "verifylib.rs",
  """            v.iter()
                .min_by(|a, b| a.0.cmp(b.0))
                .map(|(_, link)| link)""", """            v.values()
                .last()""", ["C13"]),
 ("m19-env-not-signed", "models/link/mod.rs", """    #[serde(rename = "environment")]
    env: Option<BTreeMap<String, String>>,""", """    #[serde(rename = "environment", skip_serializing)]
    env: Option<BTreeMap<String, String>>,""", ["C05"]),
 ("m20-rule-keyword-borrowed", "models/layout/rule.rs", "        let typ: String = seq", "        let typ: &str = seq", ["C17"]),
 ("m21-prefix-slices-bytes", "crypto.rs", """        match self.0.get(0..8) {
            Some(prefix) => prefix.to_string(),
            None => self.0.chars().take(8).collect(),
        }""", "        self.0[0..8].to_string()", ["C14"]),
 ("m22-ignore-step-pubkeys", "verifylib.rs", "        if !step.pub_keys.contains(signer_key_id) {\n            continue;\n        }", "", ["C02", "C15"]),
 ("m23-inspection-status-ignored", "verifylib.rs", "                Some(return_value) if return_value != 0 => {", "                Some(return_value) if return_value < 0 => {", ["C08"]),
 ("m24-threshold-zero-ok", "models/metadata.rs", "        if threshold < 1 {", "        if threshold < 1 && self.signatures.len() > 64 {", ["C04", "C01"]),
 ("m25-verify-first-key-only", "models/metadata.rs", "            if signatures_needed == 0 {\n                break;\n            }",
  "            if signatures_needed == 0 || threshold > 1 {\n                signatures_needed = 0;\n                break;\n            }", ["C04", "C01", "C09"]),
 ("m26-disallow-invalid-skipped", "rulelib.rs", "                    if let Err(e) = glob::Pattern::new(pattern.value()) {", "                    if let (Err(e), true) = (glob::Pattern::new(pattern.value()), false) {", ["C03"]),
 ("m27-symlink-target-relative-to-cwd", "runlib.rs", "                    let points_to_file = std::fs::metadata(&path)",
  "                    let points_to_file = std::fs::read_link(&path).and_then(std::fs::metadata)", ["C18"]),
 ("m28-lstrip-first-not-longest", "runlib.rs", "        if !find_prefix.is_empty() && find_prefix.len() >= l_path.len() {", "        if !find_prefix.is_empty() {", ["C18"]),
 ("m29-duplicate-key-overwrites", "runlib.rs", """                if artifacts.contains_key(&virtual_target_path) {
                    return Err(Error::LinkGatheringError(format!(
                        "non unique stripped path {virtual_target_path}"
                    )));
                }
                artifacts.insert(virtual_target_path, hashes);
            }
        }
    }
    Ok(artifacts)""", """                artifacts.insert(virtual_target_path, hashes);
            }
        }
    }
    Ok(artifacts)""", ["C18"]),
 ("m30-sublayout-expiry-skipped", "verifylib.rs", "    verify_layout_expiration(&layout)?;", "    if step_name.is_none() {\n        verify_layout_expiration(&layout)?;\n    }", ["C06", "C15"]),
]

def sh(cmd, **kw):
    return subprocess.run(cmd, shell=True, capture_output=True, text=True, **kw)

def main():
    want = sys.argv[1:]
    if sh("git -C /repo status --porcelain -- src").stdout.strip():
        print("refusing: /repo/src is not clean"); sys.exit(2)
    results = []
    for mid, f, old, new, checks in M:
        if want and mid not in want and not any(mid.startswith(w) for w in want):
            continue
        p = R + f
        s = open(p).read()
        if old not in s:
            print(f"{mid}: PATTERN NOT FOUND in {f}"); results.append((mid, "nopattern")); continue
        try:
            open(p, "w").write(s.replace(old, new, 1))
            b = sh("cd /verif/sim && CARGO_NET_OFFLINE=true cargo build --release --offline")
            if b.returncode != 0:
                print(f"{mid}: does not build\n{b.stderr[-600:]}"); results.append((mid, "nobuild")); continue
            line = []
            caught = False
            for c in checks:
                r = sh(f"cd /verif/sim && ./target/release/scsim check {c} --tier quick --no-evidence")
                first = next((l for l in r.stdout.splitlines() if l.startswith("violation:")), "")[:150]
                st = {0: "pass", 1: "VIOLATION"}.get(r.returncode, f"rc{r.returncode}")
                if r.returncode == 1:
                    caught = True
                line.append(f"{c}={st}" + (f" [{first}]" if first else ""))
            print(f"{mid}: {'CAUGHT' if caught else 'MISSED'} :: " + " ; ".join(line), flush=True)
            results.append((mid, "caught" if caught else "missed"))
        finally:
            sh("git -C /repo checkout -- src")
    sh("cd /verif/sim && CARGO_NET_OFFLINE=true cargo build --release --offline")
    n = sum(1 for _, r in results if r == "caught")
    print(f"{n}/{len(results)} caught")

main()
