#!/usr/bin/env python3
"""Builds the 'which check catches which seeded change' table of DESIGN.md §10.5 from the logs of
tools/try_copy.sh runs (tools/matrix-*.log: lines '<id> <check> PASS|VIOLATION ...|HARNESS...')."""
import glob, re, json, os, sys
rows = {}
for f in sorted(glob.glob('/verif/tools/matrix-*.log')):
    for l in open(f, errors='replace'):
        m = re.match(r'^(\S+) (C\d\d) (PASS|VIOLATION|HARNESS)', l)
        if not m: continue
        mid, chk, res = m.groups()
        rows.setdefault(mid, {})[chk] = res   # later logs override earlier ones
checks = ["C01","C02","C03","C04","C05","C06","C07","C08","C09","C13","C14","C15","C17","C18"]
out = []
out.append("| seeded change | property | what it does (short) | " + " | ".join(c[1:] for c in checks) + " |")
out.append("|---|---|---|" + "|".join(["---"]*len(checks)) + "|")
def short(mid):
    p = f'/verif/seeded/{mid}/meta.json'
    if os.path.exists(p):
        s = json.load(open(p)).get('summary') or ''
        s = re.sub(r'\s+', ' ', s)
        return (s[:110] + '…') if len(s) > 110 else s
    return ''
for mid in sorted(rows):
    prop = re.search(r'C\d\d', mid).group(0)
    cells = []
    for c in checks:
        r = rows[mid].get(c)
        cells.append({'PASS': '·', 'VIOLATION': '**X**', 'HARNESS': 'h', None: ' '}[r])
    out.append(f"| {mid} | {prop} | {short(mid)} | " + " | ".join(cells) + " |")
caught = sum(1 for m in rows if any(v == 'VIOLATION' for v in rows[m].values()))
own = sum(1 for m in rows if rows[m].get(re.search(r'C\d\d', m).group(0)) == 'VIOLATION')
out.append("")
out.append(f"**X** = the check's quick tier printed a VIOLATION (replay confirmed in a fresh process), · = passed, h = harness error (exit 2), blank = not run. {caught} of {len(rows)} seeded changes are caught by at least one check, {own} by the check of the property they were written against.")
table = "\n".join(out)
s = open('/verif/DESIGN.md').read()
a = s.index('<!-- MATRIX-BEGIN -->') + len('<!-- MATRIX-BEGIN -->')
b = s.index('<!-- MATRIX-END -->')
s = s[:a] + "\n" + table + "\n" + s[b:]
open('/verif/DESIGN.md', 'w').write(s)
print(f"{len(rows)} rows, {caught} caught, {own} by own check")
