#!/bin/sh
# tools/rerun_prop.sh <Cxx> <log> [skip-prefix]: the own check against every seeded change of one property, one after the other
P="$1"; LOG="$2"; SKIP="$3"
for d in /verif/seeded/*${P}[AB]; do
  id=$(basename "$d")
  if [ -n "$SKIP" ]; then case "$id" in ${SKIP}*) continue;; esac; fi
  timeout 900 /verif/tools/try_copy.sh "$id" "$d/patch.diff" "$P" >> "$LOG" 2>&1
done
echo DONE >> "$LOG"
