#!/bin/sh
# tools/run_round.sh <prefix> <log> [all]  — runs tools/try_copy.sh for every seeded/<prefix>* change, one after
# the other (never in parallel: each check already uses 16 workers), against the check of its own property
# (or against all checks with "all"), appending to <log>.
PREFIX="$1"; LOG="$2"; MODE="$3"
for d in /verif/seeded/${PREFIX}*; do
  id=$(basename "$d"); prop=$(echo "$id" | grep -o 'C[0-9][0-9]')
  if [ "$MODE" = all ]; then timeout 1800 /verif/tools/try_copy.sh "$id" "$d/patch.diff" >>"$LOG" 2>&1
  else timeout 900 /verif/tools/try_copy.sh "$id" "$d/patch.diff" "$prop" >>"$LOG" 2>&1; fi
done
echo DONE >>"$LOG"
