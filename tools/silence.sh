#!/bin/sh
# tools/silence.sh <first seed> <last seed> : every quick check on the unchanged tree (a scratch copy of /repo HEAD and
# of the committed simulator) under many VERIF_SEED values; prints anything that is not a PASS.
A=${1:-1}; B=${2:-50}
D=/dev/shm/silence-$$
rm -rf "$D"; mkdir -p "$D/verif"
git -C /repo worktree add -q --detach "$D/repo" HEAD || exit 2
trap 'git -C /repo worktree remove --force "$D/repo" 2>/dev/null; rm -rf "$D"' EXIT INT TERM
git -C /verif archive HEAD sim known_findings.json | tar -x -C "$D"
mv "$D/known_findings.json" "$D/verif/"
sed -i "s|path = \"/repo\"|path = \"$D/repo\"|" "$D/sim/Cargo.toml"
(cd "$D/sim" && CARGO_TARGET_DIR=/dev/shm/silence-target CARGO_NET_OFFLINE=true cargo build --release --offline >"$D/build.log" 2>&1) || { echo BUILD FAILED; exit 2; }
cp /dev/shm/silence-target/release/scsim "$D/scsim"
N=0; BAD=0
for s in $(seq $A $B); do
  for c in C01 C02 C03 C04 C05 C06 C07 C08 C09 C13 C14 C15 C17 C18; do
    OUT=$(SCSIM_VERIF="$D/verif" VERIF_SEED=$((s * 1000003)) "$D/scsim" check $c --tier quick --no-evidence 2>&1); RC=$?
    N=$((N+1))
    if [ $RC -ne 0 ]; then BAD=$((BAD+1)); echo "seed $((s * 1000003)) $c rc=$RC"; echo "$OUT" | grep -E "violation|VIOLATION|HARNESS|crash" | head -5; fi
  done
  echo "seed index $s done ($N checks so far, $BAD not silent)"
done
echo "SILENCE: $N check runs, $BAD not silent"
