#!/bin/sh
# tools/round11.sh <Cxx>: confirm both changes of one round-11 sub-agent, import the confirmed ones, first pass of the own check
P="$1"
git -C /repo worktree remove --force /tmp/mut11-$P 2>/dev/null; rm -rf /tmp/mut11-$P
for v in A B; do
  [ -f /tmp/mut11-$P-out/$v/patch.diff ] || { echo "R11$P$v: no patch" >> /verif/tools/confirm-r11.log; continue; }
  timeout 2400 /verif/tools/confirm_seeded.sh R11$P$v /tmp/mut11-$P-out/$v >> /verif/tools/confirm-r11.log 2>&1
done
python3 /verif/tools/import_seeded.py 11 /verif/tools/confirm-r11.log >/dev/null
for v in A B; do
  [ -d /verif/seeded/R11$P$v ] && timeout 900 /verif/tools/try_copy.sh R11$P$v /verif/seeded/R11$P$v/patch.diff $P >> /verif/tools/matrix-r11-first-pass.log 2>&1
done
tail -2 /verif/tools/matrix-r11-first-pass.log
