#!/usr/bin/env python3
"""tools/import_seeded.py <round> <confirm-log>: copies the confirmed changes of a round from /tmp/mut<round>-Cxx-out/{A,B}
into /verif/seeded/R<round>Cxx{A,B}/ (patch.diff, demo_test.rs, meta.json). Only lines of the confirm log that say
demo_without_patch=pass suite_with_patch=pass demo_with_patch=fail are imported."""
import sys, re, json, os, shutil, subprocess
rnd, log = sys.argv[1], sys.argv[2]
head = subprocess.run(['git','-C','/repo','rev-parse','--short','HEAD'],capture_output=True,text=True).stdout.strip()
origin = {
 '8': "written by a fresh sub-agent (eighth round: only the property text and its own scratch worktree of /repo; asked for (a) two cooperating sites that are each harmless alone, (b) a multi-step sequence of calls in one process or directory, or (c) a fault / unusual object at one particular moment; nothing from /verif)",
 '10': "written by a fresh sub-agent (tenth round, a final generalisation sample: only the property text and its own scratch worktree of /repo, an unconstrained prompt asking for the promise and mechanism least likely to be watched; nothing from /verif)",
 '11': "written by a fresh sub-agent (eleventh round, generalisation sample for the seven properties round 10 had left out: only the property text and its own scratch worktree of /repo; asked to list the promises and break the one least likely to be watched, in a way that needs a fault at a point, a sequence of calls, an interleaving, an unusual input corner or two cooperating sites; nothing from /verif)",
 '9': "written by a fresh sub-agent (ninth round; only the property text and its own scratch worktree of /repo; nothing from /verif)",
}
for l in open(log):
    m = re.match(r'^R(\d+)(C\d\d)([AB]): (demo_without_patch=pass suite_with_patch=pass\((\d+) tests\) demo_with_patch=fail)', l)
    if not m or m.group(1) != rnd: continue
    _, prop, var, res, _ = m.groups()
    src = f'/tmp/mut{rnd}-{prop}-out/{var}'
    dst = f'/verif/seeded/R{rnd}{prop}{var}'
    os.makedirs(dst, exist_ok=True)
    shutil.copy(f'{src}/patch.diff', f'{dst}/patch.diff')
    shutil.copy(f'{src}/demo_test.rs', f'{dst}/demo_test.rs')
    notes = {}
    if os.path.exists(f'{src}/notes.json'):
        try: notes = json.load(open(f'{src}/notes.json'))
        except Exception as e: notes = {'summary': open(f'{src}/notes.json').read()[:2000]}
    meta = {
      'id': f'R{rnd}{prop}{var}', 'property': prop, 'round': int(rnd),
      'kind': notes.get('kind'),
      'summary': notes.get('summary'), 'needs_to_manifest': notes.get('needs_to_manifest'),
      'files_touched': notes.get('files_touched'),
      'origin': origin.get(rnd, ''),
      'sub_agent_verification': notes.get('verification'),
      'confirmed_by_me': {'how': f'tools/confirm_seeded.sh in a scratch worktree /tmp/confirm-R{rnd}{prop}{var} (at /repo {head}): demo on the clean tree; git apply patch.diff; cargo test --offline --no-fail-fast (whole existing suite, demo moved aside); demo with the patch', 'result': res},
    }
    json.dump(meta, open(f'{dst}/meta.json','w'), indent=1, ensure_ascii=False)
    print('imported', dst)
