#!/bin/sh
# tools/run_all_rounds.sh <log>: every seeded change of rounds 1-7 against the check of its own property, one after
# the other, first with a quarter of the quick tier's runs (a PASS is repeated with the full number).
LOG="$1"
export TRY_RUNS_DIV=4
for p in C R2 R3 R4 R5 R6 R7; do /verif/tools/run_round.sh $p "$LOG"; done
echo ALLDONE >>"$LOG"
