#!/bin/sh
# tools/confirm_seeded.sh <id> <dir with patch.diff + demo_test.rs>
# Confirms a seeded change in a scratch worktree of /repo (never in /repo itself): the demo passes on the clean
# tree, the whole existing suite passes with the patch, the demo fails with the patch. Prints one line.
ID="$1"; SRC="$2"
W=/tmp/confirm-$ID
export CARGO_NET_OFFLINE=true CARGO_TARGET_DIR=${CONFIRM_TARGET:-/var/tmp/confirm-target}
git -C /repo worktree remove --force "$W" 2>/dev/null; rm -rf "$W"
git -C /repo worktree add -q --detach "$W" HEAD || exit 2
trap 'git -C /repo worktree remove --force "$W" 2>/dev/null; rm -rf "$W"' EXIT INT TERM
cd "$W" || exit 2
cp "$SRC/demo_test.rs" tests/seeded_demo.rs
timeout 1200 cargo test --offline -j 8 --test seeded_demo -- --test-threads=1 >/tmp/confirm-$ID.clean.log 2>&1; CLEAN=$?
git apply "$SRC/patch.diff" || { echo "$ID patch-does-not-apply"; exit 1; }
mv tests/seeded_demo.rs /tmp/confirm-$ID.demo.rs
timeout 1800 cargo test --offline -j 8 --no-fail-fast >/tmp/confirm-$ID.suite.log 2>&1; SUITE=$?
NT=$(grep -E "^test result:" /tmp/confirm-$ID.suite.log | awk '{s+=$4} END {print s}')
mv /tmp/confirm-$ID.demo.rs tests/seeded_demo.rs
timeout 1200 cargo test --offline -j 8 --test seeded_demo -- --test-threads=1 >/tmp/confirm-$ID.patched.log 2>&1; PATCHED=$?
r() { [ "$1" -eq 0 ] && echo pass || echo fail; }
echo "$ID: demo_without_patch=$(r $CLEAN) suite_with_patch=$(r $SUITE)($NT tests) demo_with_patch=$(r $PATCHED)"
