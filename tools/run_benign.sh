#!/bin/sh
# tools/run_benign.sh <dir with NN/patch.diff> <log> [checks...]: every behaviour-preserving change against every quick
# check (full number of runs); anything but PASS is a false alarm of the machinery.
DIR="$1"; LOG="$2"; shift 2
for d in "$DIR"/*/; do
  id="benign-$(basename "$d")"
  [ -f "$d/patch.diff" ] || continue
  timeout 3600 /verif/tools/try_copy.sh "$id" "$d/patch.diff" "$@" >>"$LOG" 2>&1
done
echo DONE >>"$LOG"
