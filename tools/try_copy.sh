#!/bin/sh
# tools/try_copy.sh <name> <patch.diff> [check ids...]
# Triage helper: applies a patch to a scratch worktree of /repo under /dev/shm, builds a copy of the
# simulator against it (shared target dir ${TRY_TARGET:-/dev/shm/try-target}), runs the named quick checks, removes the
# scratch worktree. /repo itself is not touched. (Final confirmation of a kept change is done with
# tools/try_patch.sh, which applies it to /repo and reverts.)
NAME="$1"; PATCH="$2"; shift 2
CHECKS="${*:-C01 C02 C03 C04 C05 C06 C07 C08 C09 C13 C14 C15 C17 C18}"
D=/dev/shm/try-$NAME
rm -rf "$D"; git -C /repo worktree prune
mkdir -p "$D" || exit 2
git -C /repo worktree add -q --detach "$D/repo" HEAD || exit 2
cleanup() { git -C /repo worktree remove --force "$D/repo" 2>/dev/null; rm -rf "$D"; }
trap cleanup EXIT INT TERM
if [ "$PATCH" != "-" ]; then git -C "$D/repo" apply "$PATCH" || { echo "patch does not apply"; exit 2; }; fi
# the committed simulator (HEAD), so that work in progress in /verif/sim does not leak into a trial
git -C /verif archive HEAD sim | tar -x -C "$D"
sed -i "s|path = \"/repo\"|path = \"$D/repo\"|" "$D/sim/Cargo.toml"
(cd "$D/sim" && CARGO_TARGET_DIR=${TRY_TARGET:-/dev/shm/try-target} CARGO_NET_OFFLINE=true cargo build --release --offline >"$D/build.log" 2>&1) || { echo "BUILD FAILED"; tail -20 "$D/build.log"; exit 2; }
cp ${TRY_TARGET:-/dev/shm/try-target}/release/scsim "$D/scsim"
mkdir -p "$D/verif"
for c in $CHECKS; do
  # TRY_RUNS_DIV=N: first with 1/N of the runs; a PASS is repeated with the full number
  if [ -n "$TRY_RUNS_DIV" ]; then
    OUT=$(SCSIM_VERIF="$D/verif" "$D/scsim" check "$c" --tier quick --no-evidence --runs-div "$TRY_RUNS_DIV" 2>&1); RC=$?
    if [ $RC -eq 0 ]; then OUT=$(SCSIM_VERIF="$D/verif" "$D/scsim" check "$c" --tier quick --no-evidence 2>&1); RC=$?; fi
  else
    OUT=$(SCSIM_VERIF="$D/verif" "$D/scsim" check "$c" --tier quick --no-evidence 2>&1); RC=$?
  fi
  V=$(echo "$OUT" | grep -c '^VIOLATION')
  FIRST=$(echo "$OUT" | grep -m1 '^violation:' | cut -c1-240)
  case $RC in
    0) echo "$NAME $c PASS";;
    1) echo "$NAME $c VIOLATION x$V :: $FIRST";;
    *) echo "$NAME $c HARNESS(rc=$RC) :: $(echo "$OUT" | grep -m1 'HARNESS' | cut -c1-200)";;
  esac
done
