#!/bin/sh
# tools/try_patch.sh <patch.diff> [check ids...]
# Applies a patch to /repo's working tree, runs the named quick checks (default: all), prints one line per
# check (PASS / VIOLATION / HARNESS / other), and ALWAYS reverts /repo afterwards.
PATCH="$1"; shift
CHECKS="${*:-C01 C02 C03 C04 C05 C06 C07 C08 C09 C13 C14 C15 C17 C18}"
cd /repo || exit 2
if [ -n "$(git status --porcelain -- src)" ]; then echo "refusing: /repo/src is not clean"; exit 2; fi
trap 'git -C /repo checkout -- . ; (cd /verif/sim && CARGO_NET_OFFLINE=true cargo build --release --offline >/dev/null 2>&1)' EXIT INT TERM
if ! git apply "$PATCH"; then echo "patch does not apply"; exit 2; fi
cd /verif/sim && CARGO_NET_OFFLINE=true cargo build --release --offline >/dev/shm/try-build.log 2>&1 || { echo "BUILD FAILED"; tail -20 /dev/shm/try-build.log; exit 2; }
for c in $CHECKS; do
  OUT=$(./target/release/scsim check "$c" --tier quick --no-evidence 2>&1); RC=$?
  V=$(echo "$OUT" | grep -c '^VIOLATION')
  FIRST=$(echo "$OUT" | grep -m1 '^violation:' | cut -c1-220)
  case $RC in
    0) echo "$c PASS";;
    1) echo "$c VIOLATION x$V :: $FIRST";;
    *) echo "$c HARNESS(rc=$RC) :: $(echo "$OUT" | grep -m1 'HARNESS' | cut -c1-200)";;
  esac
done
