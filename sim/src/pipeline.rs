//! The pipeline scenario: the whole supply chain carried out inside the simulator. Every step is
//! really executed with `in_toto_run` in its own workspace on tmpfs (the command is a scripted actor
//! process), its products are handed over to the next step's workspace by an artifact transport that
//! may tamper with, inject, remove or rename a file on the way (in-transit faults), the signed links
//! the library returns are stored in the link directory, the last step's products are delivered to
//! the verifier's working directory (again through the transport), and `in_toto_verify` runs over
//! it all, with an optional inspection over the delivered product.
//!
//! Oracle: the reference model of the specification's rule algorithm, evaluated on snapshots the
//! harness takes itself (own walk, one-shot digests) of every workspace before and after its
//! command — not on what the library recorded. Signatures, thresholds and expiry are fine by
//! construction, so the verdict must be `Ok` exactly if the model accepts every item (two-sided).
//! The recorded links must equal the snapshots (C18), an inspection must not start after a step's
//! rules failed (C08), the returned summary is the first step's materials and the last step's
//! products (C15).

use crate::checks::{site_of, RunRecord, Tier, Trace, Violation};
use crate::exec::{self, CallResult, Scratch, VerifyCall};
use crate::gen;
use crate::keys::{self, KeyKind, KeySpec};
use crate::oracle::{rule_in_scope, Finding};
use crate::prng::{Digest, Rng};
use crate::recorder::{compare, expect_for, to_snapshot, Expect, Snapshot};
use crate::refmodel::{self, LinkArts, RuleVerdict};
use crate::world::*;
use serde::{Deserialize, Serialize};
use serde_json::{json, Value};
use std::collections::{BTreeMap, BTreeSet};
use std::os::unix::fs::MetadataExt;
use std::path::Path;

#[derive(Clone, Debug, Serialize, Deserialize, PartialEq)]
pub enum Transit {
    /// the file's content is replaced on the way
    Tamper { path: String },
    /// a file appears on the way
    Inject { path: String, content: String },
    /// a file is lost on the way
    Remove { path: String },
    /// a file arrives under another name
    Rename { from: String, to: String },
}

#[derive(Clone, Debug, Serialize, Deserialize, PartialEq)]
pub struct PipeStep {
    pub name: String,
    pub key: usize,
    pub actor: ActorScript,
    /// faults of the artifact transport on the way INTO this step's workspace
    pub transit: Vec<Transit>,
    pub exp_mat: Vec<Rule>,
    pub exp_prod: Vec<Rule>,
    /// how the functionary names what is recorded: 0 = from inside the workspace ("."), 1 = absolute
    /// workspace path with that path as strip-prefix, 2 = from the parent directory by the workspace's
    /// name with "<name>/" as strip-prefix
    pub style: u8,
    pub algs: Option<Vec<String>>,
    /// read(2) faults while this step is recorded: (short, eintr) per mille; absorbed by the library
    pub read_faults: Option<(u64, u64)>,
    /// a second functionary (key index) carries the step out as well, on his own copy of what was handed
    /// over (with these faults of the transport on the way to HIM); the step then needs both (threshold 2)
    #[serde(default)]
    pub second: Option<(usize, Vec<Transit>)>,
}

#[derive(Clone, Debug, Serialize, Deserialize, PartialEq)]
pub struct PipelineTrace {
    /// keys[0] is the owner
    pub keys: Vec<KeySpec>,
    /// the source tree the first step starts from (path, content)
    pub initial: Vec<(String, String)>,
    pub steps: Vec<PipeStep>,
    /// faults on the way from the last workspace to the verifier's working directory
    pub delivery: Vec<Transit>,
    pub inspection: Option<InspSpec>,
    pub hash_seed: u64,
    pub now: i64,
    pub labels: Vec<String>,
    /// verification on the worker's long-lived verifier thread
    #[serde(default)]
    pub same_thread: bool,
}

const FILES: &[&str] = &["foo", "bar", "src/a", "src/b", "src/x/c", "a.c", "b.h", ".hidden", "out/a", "README", "with space", "src/\u{fc}bersicht", "~lock"];
const NEW_FILES: &[&str] = &["out/a", "out/b", "out/foo", "foo.o", "a.o", "dist/pkg", "log", "src/gen.c", "out/~tmp", "\u{e9}t\u{e9}"];

fn write_file(root: &Path, rel: &str, content: &[u8]) {
    let p = root.join(rel);
    if let Some(d) = p.parent() {
        let _ = std::fs::create_dir_all(d);
    }
    let _ = std::fs::write(p, content);
}

fn copy_tree(from: &Path, to: &Path) {
    let _ = std::fs::create_dir_all(to);
    if let Ok(rd) = std::fs::read_dir(from) {
        let mut names: Vec<_> = rd.flatten().map(|e| e.file_name()).collect();
        names.sort();
        for n in names {
            let (s, d) = (from.join(&n), to.join(&n));
            match std::fs::symlink_metadata(&s) {
                Ok(m) if m.is_dir() => copy_tree(&s, &d),
                Ok(m) if m.is_file() => {
                    let _ = std::fs::copy(&s, &d);
                }
                _ => {}
            }
        }
    }
}

fn apply_transit(root: &Path, ts: &[Transit]) -> Vec<String> {
    let mut fired = vec![];
    for t in ts {
        match t {
            Transit::Tamper { path } => {
                let p = root.join(path);
                if let Ok(mut b) = std::fs::read(&p) {
                    b.extend_from_slice(b"\ntampered in transit\n");
                    if std::fs::write(&p, b).is_ok() {
                        fired.push("A-TAMPER".to_string());
                    }
                }
            }
            Transit::Inject { path, content } => {
                if !root.join(path).exists() {
                    write_file(root, path, content.as_bytes());
                    fired.push("A-INJECT".to_string());
                }
            }
            Transit::Remove { path } => {
                if std::fs::remove_file(root.join(path)).is_ok() {
                    fired.push("A-REMOVE".to_string());
                }
            }
            Transit::Rename { from, to } => {
                let (a, b) = (root.join(from), root.join(to));
                if a.is_file() && !b.exists() {
                    if let Some(d) = b.parent() {
                        let _ = std::fs::create_dir_all(d);
                    }
                    if std::fs::rename(a, b).is_ok() {
                        fired.push("A-RENAME".to_string());
                    }
                }
            }
        }
    }
    fired
}

/// the harness's own view of a workspace: path -> digests (own walk, one-shot digests)
fn snapshot_of(dir: &Path, algs: &[String]) -> (Expect, refmodel::Artifacts) {
    let here = std::env::current_dir().ok();
    std::env::set_current_dir(dir).expect("chdir workspace");
    let e = expect_for(&[".".to_string()], &None, algs);
    if let Some(h) = here {
        let _ = std::env::set_current_dir(h);
    }
    let mut a = refmodel::Artifacts::new();
    for (k, v) in &e.entries {
        if let Some((_, d)) = v.first() {
            a.insert(k.clone(), d.clone());
        }
    }
    (e, a)
}

#[derive(Debug, Clone, Default)]
pub struct StepOutcome {
    pub mats_expect: Expect,
    pub prods_expect: Expect,
    pub mats: refmodel::Artifacts,
    pub prods: refmodel::Artifacts,
    /// what the library recorded (materials, products, byproducts, name), or why it failed
    pub recorded: Option<Result<(Snapshot, Snapshot, Value, Value), String>>,
    pub panic: Option<String>,
}

pub struct PipeOutcome {
    pub steps: Vec<StepOutcome>,
    /// the second functionary's outcome per step (None: the step has one functionary)
    pub seconds: Vec<Option<StepOutcome>>,
    pub fired: Vec<String>,
    pub work_before: refmodel::Artifacts,
    pub verdict: Option<exec::Verdict>,
    pub no_layout: Option<String>,
    pub events: Vec<String>,
    pub work_after: Vec<String>,
}

fn layout_spec(t: &PipelineTrace) -> LayoutSpec {
    LayoutSpec {
        expires: refmodel::render_rfc3339(t.now + 86_400 * 30, None, ""),
        readme: String::new(),
        key_table: t.steps.iter().flat_map(|s| std::iter::once(s.key).chain(s.second.iter().map(|x| x.0))).collect::<BTreeSet<_>>().into_iter().collect(),
        steps: t
            .steps
            .iter()
            .map(|s| {
                let pubkeys: Vec<usize> = std::iter::once(s.key).chain(s.second.iter().map(|x| x.0)).collect();
                StepSpec { name: s.name.clone(), threshold: pubkeys.len() as u32, pubkeys, exp_mat: s.exp_mat.clone(), exp_prod: s.exp_prod.clone(), cmd: vec![] }
            })
            .collect(),
        inspect: t.inspection.iter().cloned().collect(),
    }
}

/// One functionary carries out one step in his own workspace: snapshot, in_toto_run, snapshot, file the link.
#[allow(clippy::too_many_arguments)]
fn carry_out(t: &PipelineTrace, st: &PipeStep, key_idx: usize, ws: &Path, dirname: &str, wsroot: &Path, scratch: &Scratch, hs: u64, fired: &mut Vec<String>) -> (StepOutcome, bool) {
    let dev = std::fs::metadata(&scratch.root).map(|m| m.dev()).unwrap_or(0);
    let algs: Vec<String> = st.algs.clone().unwrap_or_else(|| vec!["sha256".to_string()]);
    let (me, ma) = snapshot_of(ws, &algs);
    std::fs::write(scratch.side().join("actors").join(format!("{}.json", st.actor.id.replace('/', "_"))), serde_json::to_vec(&st.actor).unwrap()).expect("actor script");
    // what the functionary passes to the library
    let wsd = ws.to_string_lossy().to_string();
    let (cwd, paths, lstrip): (std::path::PathBuf, Vec<String>, Option<Vec<String>>) = match st.style {
        1 => (scratch.work(), vec![wsd.clone()], Some(vec![format!("{wsd}/")])),
        2 => (wsroot.to_path_buf(), vec![dirname.to_string()], Some(vec![format!("{dirname}/")])),
        _ => (ws.to_path_buf(), vec![".".to_string()], None),
    };
    std::env::set_current_dir(&cwd).expect("chdir");
    let (name, cmd, algs_opt, rf) = (st.name.clone(), actor_cmd(&st.actor), st.algs.clone(), st.read_faults);
    let kspec = t.keys[key_idx];
    let r = exec::silenced(|| {
        exec::in_fresh_thread(hs, move || -> Result<(in_toto::models::Metablock, (usize, usize, usize, usize)), String> {
            // the functionary's own key object, made in this thread
            let private = keys::make_private(kspec);
            let p: Vec<&str> = paths.iter().map(|s| s.as_str()).collect();
            let c: Vec<&str> = cmd.iter().map(|s| s.as_str()).collect();
            let ls: Option<Vec<&str>> = lstrip.as_ref().map(|v| v.iter().map(|s| s.as_str()).collect());
            let al: Option<Vec<&str>> = algs_opt.as_ref().map(|v| v.iter().map(|s| s.as_str()).collect());
            if let Some((s, e)) = rf {
                crate::seams::read_arm(dev, hs, s, e, 0);
            }
            let out = in_toto::runlib::in_toto_run(&name, Some(&wsd), &p, &p, &c, Some(&private), al.as_deref(), ls.as_deref());
            let stats = if rf.is_some() { crate::seams::read_disarm() } else { (0, 0, 0, 0) };
            out.map(|mb| (mb, stats)).map_err(|e| format!("{}: {}", exec::err_class(&e), e))
        })
    });
    let (pe, pa) = snapshot_of(ws, &algs);
    let mut so = StepOutcome { mats_expect: me, prods_expect: pe, mats: ma, prods: pa, recorded: None, panic: None };
    let mut broken = false;
    match r {
        Err(p) => {
            crate::seams::read_disarm();
            so.panic = Some(p);
            broken = true;
        }
        Ok(Err(e)) => {
            so.recorded = Some(Err(e));
            broken = true;
        }
        Ok(Ok((mb, stats))) => {
            if stats.1 > 0 {
                fired.push("R-SHORT".into());
            }
            if stats.2 > 0 {
                fired.push("R-EINTR".into());
            }
            // the functionary files the link under the conventional name
            let keyid = serde_json::to_value(&mb.signatures).ok().and_then(|v| v[0]["keyid"].as_str().map(|s| s.to_string())).unwrap_or_default();
            let prefix: String = keyid.chars().take(8).collect();
            let bytes = serde_json::to_vec(&mb).unwrap_or_default();
            let _ = std::fs::write(scratch.links().join(format!("{}.{}.link", st.name, prefix)), bytes);
            if let in_toto::models::MetadataWrapper::Link(l) = &mb.metadata {
                so.recorded = Some(Ok((to_snapshot(&l.materials), to_snapshot(&l.products), serde_json::to_value(&l.byproducts).unwrap_or(Value::Null), json!(l.name))));
            }
        }
    }
    (so, broken)
}

pub fn run_pipeline(t: &PipelineTrace, scratch: &Scratch) -> PipeOutcome {
    scratch.reset_dirs();
    let wsroot = scratch.ws();
    let _ = std::fs::remove_dir_all(&wsroot);
    std::fs::create_dir_all(&wsroot).expect("ws");
    std::env::set_var("TZ", "UTC0");
    let mut fired: Vec<String> = vec![];
    let mut outs: Vec<StepOutcome> = vec![];
    let mut seconds: Vec<Option<StepOutcome>> = vec![];
    let mut prev: Option<std::path::PathBuf> = None;
    let mut broken = false;
    for (i, st) in t.steps.iter().enumerate() {
        let dirname = format!("w{i}");
        let ws = wsroot.join(&dirname);
        // a second functionary of the same step works on his own copy of what was handed over
        let dirname2 = format!("w{i}b");
        let ws2 = wsroot.join(&dirname2);
        for (w, second) in [(&ws, false), (&ws2, true)] {
            if second && st.second.is_none() {
                continue;
            }
            match &prev {
                None => {
                    std::fs::create_dir_all(w).expect("ws0");
                    for (p, c) in &t.initial {
                        write_file(w, p, c.as_bytes());
                    }
                }
                Some(p) => copy_tree(p, w),
            }
        }
        fired.extend(apply_transit(&ws, &st.transit));
        let hs = t.hash_seed.wrapping_add(i as u64);
        let (so, b) = carry_out(t, st, st.key, &ws, &dirname, &wsroot, scratch, hs, &mut fired);
        broken |= b;
        outs.push(so);
        let mut sec = None;
        if let (Some((k2, tr2)), false) = (&st.second, broken) {
            fired.extend(apply_transit(&ws2, tr2));
            let (so2, b2) = carry_out(t, st, *k2, &ws2, &dirname2, &wsroot, scratch, hs ^ 0xb, &mut fired);
            broken |= b2;
            sec = Some(so2);
        }
        seconds.push(sec);
        if broken {
            break;
        }
        prev = Some(ws);
    }
    std::env::set_current_dir("/").ok();
    let mut o = PipeOutcome { steps: outs, seconds, fired, work_before: refmodel::Artifacts::new(), verdict: None, no_layout: None, events: vec![], work_after: vec![] };
    if broken {
        return o;
    }
    // delivery of the final product to the verifier
    if let Some(p) = &prev {
        copy_tree(p, &scratch.work());
    }
    o.fired.extend(apply_transit(&scratch.work(), &t.delivery));
    let (_, wb) = snapshot_of(&scratch.work(), &["sha256".to_string()]);
    o.work_before = wb;
    if let Some(i) = &t.inspection {
        std::fs::write(scratch.side().join("actors").join(format!("{}.json", i.actor.id.replace('/', "_"))), serde_json::to_vec(&i.actor).unwrap()).expect("actor script");
    }
    let _ = std::fs::remove_file(scratch.side().join("events.log"));
    let lv = layout_value(&layout_spec(t), &t.keys);
    let doc = match sign_value(&lv, &[0], &t.keys) {
        Some(d) => d,
        None => {
            o.no_layout = Some("layout not signable".into());
            return o;
        }
    };
    let bytes = to_text(&doc, false).into_bytes();
    let owner = keys::key(t.keys[0]);
    let call = VerifyCall { layout_bytes: &bytes, caller_keys: vec![(owner.id.clone(), owner.public.clone())], link_dir: &scratch.links(), cwd: &scratch.work(), clock: &[(t.now, 0)], hash_seed: t.hash_seed, step_name: None, same_thread: t.same_thread, mem_sigdup: vec![] };
    match exec::verify(&call) {
        CallResult::NoLayout(e) => o.no_layout = Some(e),
        CallResult::Verdict(v) => o.verdict = Some(v),
    }
    std::env::set_current_dir("/").ok();
    o.events = scratch.events();
    o.work_after = exec::listing(&scratch.work());
    o
}

fn parse_rules(rs: &[Rule]) -> Option<Vec<refmodel::Rule>> {
    rs.iter().map(|r| refmodel::parse_rule(r)).collect()
}

/// (findings, model verdict for the evidence)
pub fn judge_pipeline(t: &PipelineTrace, o: &PipeOutcome) -> (Vec<Finding>, String) {
    let mut f = vec![];
    let fnd = |p: &str, c: &str, d: String| Finding { prop: p.into(), clause: c.into(), detail: d };
    // recording: every step's link must be what the harness saw
    let all_recordings: Vec<(usize, &StepOutcome)> = o.steps.iter().enumerate().flat_map(|(i, so)| std::iter::once((i, so)).chain(o.seconds.get(i).and_then(|x| x.as_ref()).map(|s2| (i, s2)))).collect();
    for (i, so) in all_recordings {
        let st = &t.steps[i];
        if let Some(p) = &so.panic {
            f.push(fnd("C14", "panic-in-recorder", p.clone()));
            return (f, "recorder-panic".into());
        }
        match &so.recorded {
            Some(Err(e)) => {
                let cmd_ok = matches!(st.actor.exit, ExitSpec::Code(_)) && std::str::from_utf8(&st.actor.stdout).is_ok() && std::str::from_utf8(&st.actor.stderr).is_ok();
                if cmd_ok && !so.mats_expect.unreadable && !so.prods_expect.unreadable {
                    f.push(fnd("C18", "valid-tree-rejected", format!("step {}: in_toto_run failed over a workspace of regular files and directories: {e}", st.name)));
                }
                return (f, "recorder-failed".into());
            }
            Some(Ok((m, p, by, name))) => {
                let n0 = f.len();
                compare("materials", m, &so.mats_expect, &mut f);
                if f.len() == n0 {
                    compare("products", p, &so.prods_expect, &mut f);
                }
                if f.len() == n0 {
                    if let ExitSpec::Code(c) = st.actor.exit {
                        let (wo, we) = (String::from_utf8_lossy(&st.actor.stdout).to_string(), String::from_utf8_lossy(&st.actor.stderr).to_string());
                        if by["stdout"].as_str() != Some(wo.as_str()) || by["stderr"].as_str() != Some(we.as_str()) || by["return-value"].as_i64() != Some(c as i64) {
                            f.push(fnd("C18", "byproducts-differ", format!("step {}: recorded {by}, the command printed {:?} / {:?} and exited with {c}", st.name, wo, we)));
                        }
                    }
                    if name.as_str() != Some(st.name.as_str()) {
                        f.push(fnd("C18", "name-differs", format!("{name}")));
                    }
                }
                if f.len() > n0 {
                    for x in f.iter_mut().skip(n0) {
                        x.detail = format!("pipeline step {} (style {}): {}", st.name, st.style, x.detail);
                    }
                    return (f, "recorded-differs".into());
                }
            }
            None => return (f, "recorder-nothing".into()),
        }
    }
    if o.steps.len() < t.steps.len() {
        return (f, "incomplete".into());
    }
    let v = match &o.verdict {
        Some(v) => v,
        None => return (f, "no-layout".into()),
    };
    if let Some(p) = &v.panic {
        f.push(fnd("C14", "panic-in-verification", p.clone()));
        return (f, "panic".into());
    }
    // the reference model over the harness's own snapshots
    let mut links: BTreeMap<String, LinkArts> = BTreeMap::new();
    for (i, so) in o.steps.iter().enumerate() {
        links.insert(t.steps[i].name.clone(), LinkArts { materials: so.mats.clone(), products: so.prods.clone() });
    }
    // a step carried out by two functionaries: their links must agree (what each of them saw and made)
    let mut dissent: Option<String> = None;
    for (i, so) in o.steps.iter().enumerate() {
        if let Some(Some(s2)) = o.seconds.get(i) {
            if dissent.is_none() && (s2.mats != so.mats || s2.prods != so.prods) {
                dissent = Some(format!("step {}: the two functionaries' workspaces differed ({})", t.steps[i].name, if s2.mats != so.mats { "materials" } else { "products" }));
            }
        }
    }
    if let Some(why) = &dissent {
        if v.ok {
            f.push(fnd("C07", "dissenting-link-accepted", format!("pipeline: {why}, both links are validly signed and authorized, the step needs both, yet verification returned Ok")));
        }
        if let Some(insp) = &t.inspection {
            if o.events.iter().any(|l| l.strip_prefix("start ") == Some(insp.actor.id.as_str())) {
                f.push(fnd("C08", "inspection-ran-before-steps-verified", format!("pipeline: inspection {} was started although {why}", insp.actor.id)));
            }
        }
        return (f, format!("reject: {why}"));
    }
    let mut in_scope = true;
    let mut step_reject: Option<String> = None;
    for st in &t.steps {
        match (parse_rules(&st.exp_mat), parse_rules(&st.exp_prod)) {
            (Some(em), Some(ep)) => {
                if !em.iter().chain(ep.iter()).all(rule_in_scope) {
                    in_scope = false;
                }
                if step_reject.is_none() {
                    if let RuleVerdict::Reject(why) = refmodel::apply_item(&em, &ep, &st.name, &links) {
                        step_reject = Some(format!("step {}: {why}", st.name));
                    }
                }
            }
            _ => in_scope = false,
        }
    }
    // the inspection: materials = the delivered product as the harness saw it, products = that after the
    // scripted command
    let mut insp_reject: Option<String> = None;
    let mut insp_failing = false;
    if let Some(insp) = &t.inspection {
        insp_failing = insp.actor.exit != ExitSpec::Code(0);
        let mut after: BTreeMap<String, Option<Vec<u8>>> = BTreeMap::new();
        let mut modelled = true;
        for op in &insp.actor.ops {
            match op {
                FsOp::Write { path, content } => {
                    after.insert(path.clone(), Some(content.as_bytes().to_vec()));
                }
                FsOp::Remove { path } => {
                    after.insert(path.clone(), None);
                }
                _ => modelled = false,
            }
        }
        let mut prods = o.work_before.clone();
        for (p, c) in after {
            match c {
                Some(b) => {
                    let mut d = refmodel::Digests::new();
                    d.insert("sha256".into(), gen::sha256_hex(&b));
                    prods.insert(p, d);
                }
                None => {
                    prods.remove(&p);
                }
            }
        }
        // a write below a path that is a file, or onto a directory, is not modelled
        let ks: Vec<&String> = prods.keys().collect();
        for a in &ks {
            for b in &ks {
                if a != b && b.starts_with(&format!("{}/", a)) {
                    modelled = false;
                }
            }
        }
        if !modelled || t.steps.iter().any(|s| s.name == insp.name) {
            in_scope = false;
        }
        links.insert(insp.name.clone(), LinkArts { materials: o.work_before.clone(), products: prods });
        match (parse_rules(&insp.exp_mat), parse_rules(&insp.exp_prod)) {
            (Some(em), Some(ep)) => {
                if !em.iter().chain(ep.iter()).all(rule_in_scope) {
                    in_scope = false;
                }
                if let RuleVerdict::Reject(why) = refmodel::apply_item(&em, &ep, &insp.name, &links) {
                    insp_reject = Some(format!("inspection {}: {why}", insp.name));
                }
            }
            _ => in_scope = false,
        }
    }
    // artifact paths the model and the matcher may read differently (glob metacharacters in a file name)
    if links.values().any(|l| l.materials.keys().chain(l.products.keys()).any(|p| p.contains(|c| "*?[]\\".contains(c)))) {
        in_scope = false;
    }
    let model = match (&step_reject, &insp_reject) {
        (Some(w), _) => format!("reject: {w}"),
        (None, Some(w)) => format!("reject: {w}"),
        _ => "accept".to_string(),
    };
    let started: Vec<&str> = o.events.iter().filter_map(|l| l.strip_prefix("start ")).collect();
    if in_scope {
        if let Some(why) = &step_reject {
            if v.ok {
                f.push(fnd("C03", "rule-violation-accepted", format!("pipeline: reference model rejects on the workspaces as they were: {why}")));
            }
            // C08: no inspection after a failed step
            if let Some(insp) = &t.inspection {
                if started.contains(&insp.actor.id.as_str()) {
                    f.push(fnd("C08", "inspection-ran-before-steps-verified", format!("pipeline: inspection {} was started although {why}", insp.actor.id)));
                }
                if o.work_after.iter().any(|p| p == &format!("{}.link", insp.name)) {
                    f.push(fnd("C08", "inspection-link-written-before-steps-verified", format!("pipeline: {}.link exists although {why}", insp.name)));
                }
            }
        } else if let Some(why) = &insp_reject {
            if v.ok && !insp_failing {
                f.push(fnd("C03", "rule-violation-accepted", format!("pipeline: reference model rejects: {why}")));
                // (C08: an inspection's recorded materials and products are subject to its rules like a step's)
                f.push(fnd("C08", "inspection-rule-violation-accepted", format!("pipeline: the inspection ran, the reference model rejects its rules on the working directory as it was before / after the command ({why}), yet verification returned Ok")));
            }
        } else if !v.ok && !insp_failing && v.class == "ArtifactRuleError" {
            // a rejection in the name of the artifact rules needs a cause in the model (a verifier that is
            // stricter about something else — command alignment, say — is not this property's business)
            f.push(fnd(
                "C03",
                "rule-rejection-without-cause",
                format!("pipeline: the verifier rejects with '{}' but the reference model accepts every step's{} rules on the workspaces as they were", v.short().chars().take(220).collect::<String>(), if t.inspection.is_some() { " and the inspection's" } else { "" }),
            ));
        }
        if v.ok && insp_failing && step_reject.is_none() {
            f.push(fnd("C08", "failing-inspection-accepted", format!("pipeline: inspection ended with {:?} and verification returned Ok", t.inspection.as_ref().map(|i| i.actor.exit.clone()))));
        }
    }
    // the summary of a successful verification: first step's materials, last step's products
    if v.ok {
        if let (Some(s), Some(first), Some(last)) = (&v.summary, o.steps.first(), o.steps.last()) {
            let want_m = serde_json::to_value(&first.mats).unwrap_or(Value::Null);
            let want_p = serde_json::to_value(&last.prods).unwrap_or(Value::Null);
            let default_algs = t.steps.first().map(|x| x.algs.is_none()).unwrap_or(true) && t.steps.last().map(|x| x.algs.is_none()).unwrap_or(true);
            if default_algs && s["materials"] != want_m {
                f.push(fnd("C15", "summary-materials", format!("pipeline: summary materials {} are not the first step's ({})", s["materials"], want_m)));
            } else if default_algs && s["products"] != want_p {
                f.push(fnd("C15", "summary-products", format!("pipeline: summary products {} are not the last step's ({})", s["products"], want_p)));
            }
        }
        if v.clock_reads == 0 {
            f.push(fnd("C06", "clock-not-consulted", "verification returned Ok without reading the wall clock".into()));
        }
    }
    (f, model)
}

pub fn exec_and_fold(t: &PipelineTrace, scratch: &Scratch, rec: &mut RunRecord, seed: u64, index: u64, prop: &str) -> Vec<Finding> {
    crate::crash::write_current_trace(&Trace::Pipeline(t.clone()));
    let o = run_pipeline(t, scratch);
    let (findings, model) = judge_pipeline(t, &o);
    rec.evaluations += 1;
    rec.sim_seconds += 86_400.0 * 30.0;
    let mut d = Digest::new();
    d.update(&rec.log_digest.to_le_bytes());
    let mut sh = Digest::new();
    sh.str(&model.split(':').next().unwrap_or("").to_string());
    for so in o.seconds.iter().flatten() {
        d.str(&format!("2nd{:?}{:?}", so.mats, so.prods));
        d.str(&exec::mask_scratch(&format!("{:?}", so.recorded)));
        sh.str("2nd");
    }
    for so in &o.steps {
        d.str(&format!("{:?}{:?}", so.mats, so.prods));
        d.str(&exec::mask_scratch(&format!("{:?}", so.recorded)));
        sh.str(&format!("{}>{}", so.mats.len().min(6), so.prods.len().min(6)));
    }
    for st in &t.steps {
        sh.str(&format!("{}|{:?}|{}|{}", st.style, st.transit.iter().map(|x| format!("{:?}", x).chars().take(4).collect::<String>()).collect::<Vec<_>>(), st.exp_mat.len(), st.exp_prod.len()));
    }
    sh.str(&format!("{:?}", t.inspection.as_ref().map(|i| (i.exp_mat.len(), i.exp_prod.len(), i.actor.ops.len()))));
    if let Some(v) = &o.verdict {
        let masked: String = exec::mask_scratch(&v.short()).chars().map(|c| if c.is_ascii_digit() { '#' } else { c }).collect();
        d.str(if t.same_thread { v.verdict_class() } else { &masked });
        if let Some(s) = &v.summary {
            d.str(&s.to_string());
        }
        sh.str(v.verdict_class());
        rec.verdicts[match v.verdict_class() {
            "ok" => 0,
            "err" => 1,
            _ => 2,
        }] += 1;
        if v.ok {
            rec.probe("pipeline: final product accepted end to end");
        }
    }
    for e in o.events.iter().filter(|l| !l.starts_with("saw ")) {
        d.str(e);
    }
    for w in &o.work_after {
        d.str(w);
    }
    d.str(&model);
    rec.log_digest = d.finish();
    let nontrivial = !o.fired.is_empty();
    rec.shapes.push((sh.finish(), nontrivial));
    rec.schedules.push(t.hash_seed);
    rec.fired.extend(o.fired.iter().cloned());
    for l in &t.labels {
        rec.fired.push(l.clone());
    }
    rec.probe("pipeline: steps really executed with in_toto_run");
    if model.contains("the two functionaries' workspaces differed") {
        rec.probe("pipeline: two functionaries of one step disagree");
    } else if o.seconds.iter().any(|x| x.is_some()) {
        rec.probe("pipeline: two functionaries of one step agree");
    }
    if model.starts_with("reject") && !o.fired.is_empty() {
        rec.probe("pipeline: in-transit fault caught by the rules (model rejects)");
    }
    if model == "accept" && !o.fired.is_empty() {
        rec.probe("pipeline: in-transit fault the rules do not object to");
    }
    if t.inspection.is_some() && o.events.iter().any(|l| l.starts_with("start ")) {
        rec.probe("pipeline: inspection ran over the delivered product");
    }
    if rec.sample.is_none() {
        rec.sample = Some(json!({
            "seed": seed,
            "scenario": "pipeline",
            "steps": t.steps.iter().map(|s| json!({"name": s.name, "style": s.style, "transit": s.transit, "ops": s.actor.ops.len()})).collect::<Vec<_>>(),
            "delivery": t.delivery,
            "fired": o.fired,
            "model": model,
            "verdict": o.verdict.as_ref().map(|v| v.short()),
        }));
    }
    if std::env::var("SCSIM_DEBUG").is_ok() {
        eprintln!("DEBUG pipeline {:?} model {} verdict {:?} events {:?}", t.labels, model, o.verdict.as_ref().map(|v| v.short()), o.events);
    }
    let mut own = vec![];
    for x in findings {
        if x.prop == prop {
            if own.is_empty() {
                let mut labels = o.fired.clone();
                labels.push("PIPELINE".into());
                rec.own.push(Violation { seed, index, site: site_of(&x, &labels), finding: x.clone(), trace: Trace::Pipeline(t.clone()) });
            }
            own.push(x);
        } else {
            rec.cross.push(x);
        }
    }
    own
}

// ---------------------------------------------------------------------------------------------
// generation
// ---------------------------------------------------------------------------------------------
fn random_rule(r: &mut Rng, names: &[String]) -> Rule {
    let pats = ["*", "foo", "src/*", "*.c", "out/*", "*.o", "src/a", "?ar", "[fb]oo", "dist/*", "README", "*/a", "log", "b.h", "src/x/*", "~*", "* *"];
    let pat = r.pick(&pats).to_string();
    match r.weighted(&[10, 8, 10, 14, 8, 10, 40]) {
        0 => vec!["CREATE".into(), pat],
        1 => vec!["DELETE".into(), pat],
        2 => vec!["MODIFY".into(), pat],
        3 => vec!["ALLOW".into(), pat],
        4 => vec!["REQUIRE".into(), r.pick(FILES).to_string()],
        5 => vec!["DISALLOW".into(), pat],
        _ => {
            let mut v: Rule = vec!["MATCH".into(), r.pick(&["*", "a", "foo", "*.c", "b", "?*"]).to_string()];
            if r.chance(1, 3) {
                v.push("IN".into());
                v.push(r.pick(&["src", "out", "dist", "src/x"]).to_string());
            }
            v.push("WITH".into());
            v.push(if r.chance(2, 3) { "PRODUCTS".into() } else { "MATERIALS".into() });
            if r.chance(1, 3) {
                v.push("IN".into());
                v.push(r.pick(&["src", "out", "dist"]).to_string());
            }
            v.push("FROM".into());
            v.push(r.pick(names).clone());
            v
        }
    }
}

pub fn gen_trace(seed: u64, _tier: Tier, force_insp: bool, force_second: bool) -> PipelineTrace {
    let mut r = Rng::stream(seed, "pipeline");
    let n = 1 + r.weighted(&[25, 45, 30]);
    let keys: Vec<KeySpec> = (0..2 * n + 1).map(|i| KeySpec { kind: if r.chance(1, 8) { KeyKind::EdPk8 } else { KeyKind::Ed }, seed: (seed % 89) * 16 + i as u64 }).collect();
    let names: Vec<String> = (0..n).map(|i| ["fetch", "build", "test", "pack"][i % 4].to_string()).collect();
    let mut labels = vec!["PIPELINE".to_string()];
    // the source tree
    let mut initial: Vec<(String, String)> = vec![];
    let n_init = 1 + r.idx(5);
    while initial.len() < n_init {
        let p = r.pick(FILES).to_string();
        // no path may be both a file and a directory prefix of another
        if initial.iter().any(|(q, _)| *q == p || q.starts_with(&format!("{p}/")) || p.starts_with(&format!("{q}/"))) {
            continue;
        }
        initial.push((p, format!("source-{}", r.below(5))));
    }
    // simulate the file sets to derive tight rules from the flow
    let mut present: BTreeSet<String> = initial.iter().map(|x| x.0.clone()).collect();
    let mut steps = vec![];
    for i in 0..n {
        let before = present.clone();
        let mut ops = vec![];
        let (mut created, mut modified, mut deleted) = (BTreeSet::new(), BTreeSet::new(), BTreeSet::new());
        for _ in 0..r.weighted(&[10, 35, 30, 25]) {
            match r.weighted(&[45, 30, 25]) {
                0 => {
                    let p = r.pick(NEW_FILES).to_string();
                    if present.iter().any(|q| q.starts_with(&format!("{p}/")) || p.starts_with(&format!("{q}/"))) {
                        continue;
                    }
                    ops.push(FsOp::Write { path: p.clone(), content: format!("made-by-{}-{}", names[i], r.below(4)) });
                    if before.contains(&p) {
                        modified.insert(p.clone());
                    } else {
                        created.insert(p.clone());
                    }
                    present.insert(p);
                }
                1 if !present.is_empty() => {
                    let p = present.iter().nth(r.idx(present.len())).unwrap().clone();
                    ops.push(FsOp::Append { path: p.clone(), content: format!("+{}", names[i]) });
                    if before.contains(&p) {
                        modified.insert(p);
                    }
                }
                2 if !present.is_empty() => {
                    let p = present.iter().nth(r.idx(present.len())).unwrap().clone();
                    ops.push(FsOp::Remove { path: p.clone() });
                    present.remove(&p);
                    created.remove(&p);
                    modified.remove(&p);
                    if before.contains(&p) {
                        deleted.insert(p);
                    }
                }
                _ => {}
            }
        }
        // rules derived from the flow ("tight"), or drawn at random, or tight with a random rule spliced in
        let mut exp_mat: Vec<Rule> = if i == 0 {
            match r.below(3) {
                0 => vec![vec!["ALLOW".into(), "*".into()]],
                1 => {
                    let mut v: Vec<Rule> = before.iter().map(|p| vec!["ALLOW".to_string(), p.clone()]).collect();
                    v.push(vec!["DISALLOW".into(), "*".into()]);
                    v
                }
                _ => {
                    let mut v: Vec<Rule> = before.iter().take(1).map(|p| vec!["REQUIRE".to_string(), p.clone()]).collect();
                    v.push(vec!["ALLOW".into(), "*".into()]);
                    v
                }
            }
        } else {
            vec![vec!["MATCH".into(), "*".into(), "WITH".into(), "PRODUCTS".into(), "FROM".into(), names[i - 1].clone()], vec!["DISALLOW".into(), "*".into()]]
        };
        let mut exp_prod: Vec<Rule> = vec![];
        for p in &created {
            exp_prod.push(vec!["CREATE".into(), p.clone()]);
        }
        for p in &modified {
            exp_prod.push(vec!["MODIFY".into(), p.clone()]);
        }
        match r.below(3) {
            0 => exp_prod.push(vec!["MATCH".into(), "*".into(), "WITH".into(), "MATERIALS".into(), "FROM".into(), names[i].clone()]),
            1 => exp_prod.push(vec!["ALLOW".into(), "*".into()]),
            _ => {
                for p in present.iter().filter(|p| !created.contains(*p) && !modified.contains(*p)) {
                    exp_prod.push(vec!["ALLOW".into(), p.clone()]);
                }
            }
        }
        exp_prod.push(vec!["DISALLOW".into(), "*".into()]);
        if !deleted.is_empty() && r.chance(1, 2) {
            // DELETE rules speak about materials that are gone from the products
            let mut v: Vec<Rule> = deleted.iter().map(|p| vec!["DELETE".to_string(), p.clone()]).collect();
            v.extend(exp_mat.clone());
            exp_mat = v;
        }
        match r.weighted(&[55, 25, 20]) {
            0 => {}
            1 => {
                let at = r.idx(exp_mat.len() + 1);
                exp_mat.insert(at, random_rule(&mut r, &names));
                let at = r.idx(exp_prod.len() + 1);
                exp_prod.insert(at, random_rule(&mut r, &names));
                labels.push("RULES-PERTURBED".into());
            }
            _ => {
                exp_mat = (0..r.idx(4)).map(|_| random_rule(&mut r, &names)).collect();
                exp_prod = (0..r.idx(4)).map(|_| random_rule(&mut r, &names)).collect();
                if r.chance(1, 2) {
                    exp_prod.push(vec!["DISALLOW".into(), "*".into()]);
                }
                labels.push("RULES-RANDOM".into());
            }
        }
        steps.push(PipeStep {
            name: names[i].clone(),
            key: i + 1,
            actor: ActorScript { id: format!("pipe#{}", names[i]), ops, stdout: if r.chance(1, 3) { format!("out of {}\n", names[i]).into_bytes() } else { vec![] }, stderr: if r.chance(1, 5) { b"warning: \xc3\xa9\n".to_vec() } else { vec![] }, exit: ExitSpec::Code(if r.chance(1, 10) { 1 + r.below(3) as i32 } else { 0 }) },
            transit: vec![],
            exp_mat,
            exp_prod,
            style: r.weighted(&[50, 25, 25]) as u8,
            algs: if r.chance(1, 6) { Some(vec!["sha256".into(), "sha512".into()]) } else { None },
            read_faults: if r.chance(1, 6) { Some((300, 200)) } else { None },
            second: None,
        });
    }
    // a step that records two digests per artifact next to one that records one would make every MATCH
    // between them fail by the model and the library alike; keep the algorithm sets equal in most worlds
    if r.chance(3, 4) {
        let a = steps[0].algs.clone();
        for s in steps.iter_mut() {
            s.algs = a.clone();
        }
    }
    // in-transit faults: at most two, at random hand-overs (a hand-over into step 0 is the source itself)
    let mut delivery = vec![];
    let final_files: Vec<String> = present.iter().cloned().collect();
    for _ in 0..r.weighted(&[40, 45, 15]) {
        let at = r.idx(n + 1);
        let pool: Vec<String> = if at == n { final_files.clone() } else { initial.iter().map(|x| x.0.clone()).chain(NEW_FILES.iter().map(|s| s.to_string())).collect() };
        let victim = if pool.is_empty() { "foo".to_string() } else { r.pick(&pool).clone() };
        let tf = match r.below(4) {
            0 => Transit::Tamper { path: victim },
            1 => Transit::Inject { path: r.pick(&["evil", "src/backdoor.c", "out/extra", ".hidden2", "foo.o"]).to_string(), content: "injected".into() },
            2 => Transit::Remove { path: victim },
            _ => Transit::Rename { from: victim, to: r.pick(&["renamed", "src/moved", "out/moved"]).to_string() },
        };
        if at == n {
            delivery.push(tf);
        } else if at > 0 || r.chance(1, 2) {
            steps[at].transit.push(tf);
        }
    }
    // a second functionary for one step in a quarter of the worlds; the transport to HIM fails now and then
    if force_second || r.chance(1, 4) {
        let i = r.idx(n);
        let mut tr = vec![];
        if r.chance(1, 2) {
            let pool: Vec<String> = initial.iter().map(|x| x.0.clone()).chain(NEW_FILES.iter().map(|s| s.to_string())).collect();
            let victim = r.pick(&pool).clone();
            tr.push(match r.below(3) {
                0 => Transit::Tamper { path: victim },
                1 => Transit::Inject { path: "evil2".into(), content: "injected".into() },
                _ => Transit::Remove { path: victim },
            });
        }
        // (what reached the first functionary reaches the second one too, unless the fault is his alone)
        if r.chance(1, 2) {
            tr.extend(steps[i].transit.clone());
        }
        steps[i].second = Some((n + 1 + i, tr));
        labels.push("TWO-FUNCTIONARIES".into());
    }
    // an inspection over the delivered product in some of the worlds
    let inspection = if force_insp || r.chance(2, 5) {
        let last = names[n - 1].clone();
        let mut ops = vec![];
        for _ in 0..r.weighted(&[50, 30, 20]) {
            match r.below(3) {
                // (among the names: link files as inspections leave them behind, this one's and others')
                0 => ops.push(FsOp::Write { path: r.pick(&["report", "out/a", "foo", "unpacked/x", "inspect-final.link", "insp.link", "audit.link"]).to_string(), content: format!("inspected-{}", r.below(3)) }),
                1 if !final_files.is_empty() => ops.push(FsOp::Remove { path: r.pick(&final_files).clone() }),
                _ => ops.push(FsOp::Write { path: "report".into(), content: "ok".into() }),
            }
        }
        let mut inames = names.clone();
        inames.push("inspect-final".into());
        let (exp_mat, exp_prod) = if r.chance(2, 3) {
            (vec![vec!["MATCH".to_string(), "*".into(), "WITH".into(), "PRODUCTS".into(), "FROM".into(), last], vec!["DISALLOW".into(), "*".into()]], if r.chance(1, 2) { vec![vec!["ALLOW".to_string(), "*".into()]] } else { vec![vec!["MATCH".to_string(), "*".into(), "WITH".into(), "MATERIALS".into(), "FROM".into(), "inspect-final".into()], vec!["CREATE".into(), "report".into()], vec!["DISALLOW".into(), "*".into()]] })
        } else {
            ((0..r.idx(4)).map(|_| random_rule(&mut r, &inames)).collect(), (0..r.idx(4)).map(|_| random_rule(&mut r, &inames)).collect())
        };
        labels.push("INSPECTION".into());
        Some(InspSpec { name: "inspect-final".into(), exp_mat, exp_prod, actor: ActorScript { id: "pipe#inspect-final".into(), ops, stdout: vec![], stderr: vec![], exit: ExitSpec::Code(if r.chance(1, 12) { 2 } else { 0 }) } })
    } else {
        None
    };
    PipelineTrace { keys, initial, steps, delivery, inspection, hash_seed: r.next(), now: gen::NOW_DEFAULT + (seed % 1000) as i64 * 86_400, labels, same_thread: gen::same_thread_block(seed) }
}

pub fn run_check(prop: &str, tier: Tier, seed: u64, index: u64, scratch: &Scratch, rec: &mut RunRecord) {
    let t = gen_trace(seed, tier, prop == "C08", prop == "C07");
    exec_and_fold(&t, scratch, rec, seed, index, prop);
}

pub fn replay(prop: &str, t: &PipelineTrace, scratch: &Scratch, rec: &mut RunRecord) -> Vec<Finding> {
    exec_and_fold(t, scratch, rec, 0, 0, prop)
}

pub fn minimise(prop: &str, clause: &str, t: &PipelineTrace, scratch: &Scratch) -> (PipelineTrace, bool) {
    let still = |c: &PipelineTrace| {
        let mut rec = RunRecord::default();
        exec_and_fold(c, scratch, &mut rec, 0, 0, prop).iter().any(|f| f.clause == clause)
    };
    let mut cur = t.clone();
    let mut changed = false;
    for _ in 0..400 {
        let mut cands: Vec<PipelineTrace> = vec![];
        if cur.inspection.is_some() {
            let mut c = cur.clone();
            c.inspection = None;
            cands.push(c);
        }
        if cur.steps.len() > 1 {
            // drop the last step (earlier ones are referred to by MATCH rules)
            let mut c = cur.clone();
            c.steps.pop();
            cands.push(c);
        }
        for i in 0..cur.delivery.len() {
            let mut c = cur.clone();
            c.delivery.remove(i);
            cands.push(c);
        }
        for s in 0..cur.steps.len() {
            for i in 0..cur.steps[s].transit.len() {
                let mut c = cur.clone();
                c.steps[s].transit.remove(i);
                cands.push(c);
            }
            for i in 0..cur.steps[s].actor.ops.len() {
                let mut c = cur.clone();
                c.steps[s].actor.ops.remove(i);
                cands.push(c);
            }
            for i in 0..cur.steps[s].exp_mat.len() {
                let mut c = cur.clone();
                c.steps[s].exp_mat.remove(i);
                cands.push(c);
            }
            for i in 0..cur.steps[s].exp_prod.len() {
                let mut c = cur.clone();
                c.steps[s].exp_prod.remove(i);
                cands.push(c);
            }
            if cur.steps[s].second.is_some() {
                let mut c = cur.clone();
                c.steps[s].second = None;
                cands.push(c);
            }
            if cur.steps[s].style != 0 {
                let mut c = cur.clone();
                c.steps[s].style = 0;
                cands.push(c);
            }
            if cur.steps[s].algs.is_some() {
                let mut c = cur.clone();
                c.steps[s].algs = None;
                cands.push(c);
            }
            if cur.steps[s].read_faults.is_some() {
                let mut c = cur.clone();
                c.steps[s].read_faults = None;
                cands.push(c);
            }
            if !cur.steps[s].actor.stdout.is_empty() || !cur.steps[s].actor.stderr.is_empty() {
                let mut c = cur.clone();
                c.steps[s].actor.stdout.clear();
                c.steps[s].actor.stderr.clear();
                cands.push(c);
            }
        }
        if cur.initial.len() > 1 {
            for i in 0..cur.initial.len() {
                let mut c = cur.clone();
                c.initial.remove(i);
                cands.push(c);
            }
        }
        if let Some(insp) = &cur.inspection {
            for i in 0..insp.actor.ops.len() {
                let mut c = cur.clone();
                c.inspection.as_mut().unwrap().actor.ops.remove(i);
                cands.push(c);
            }
            for i in 0..insp.exp_mat.len() {
                let mut c = cur.clone();
                c.inspection.as_mut().unwrap().exp_mat.remove(i);
                cands.push(c);
            }
            for i in 0..insp.exp_prod.len() {
                let mut c = cur.clone();
                c.inspection.as_mut().unwrap().exp_prod.remove(i);
                cands.push(c);
            }
        }
        let mut progress = false;
        for c in cands {
            if c != cur && still(&c) {
                cur = c;
                changed = true;
                progress = true;
                break;
            }
        }
        if !progress {
            break;
        }
    }
    (cur, changed)
}
