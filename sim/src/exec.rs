//! Running library entry points under the seams: scratch directories on tmpfs, a fresh thread per
//! call (fresh, seeded hash-map keys), the simulated wall clock, panic capture.

use crate::seams;
use in_toto::crypto::{KeyId, PublicKey};
use in_toto::models::{Metablock, MetadataWrapper};
use serde::Serialize;
use serde_json::Value;
use std::collections::HashMap;
use std::path::{Path, PathBuf};

pub struct Scratch {
    pub root: PathBuf,
}

impl Scratch {
    /// `/dev/shm/scsim-<pid>/<tag>/{links,work,ws,side}`
    pub fn new(tag: &str) -> Scratch {
        let root = PathBuf::from(format!("/dev/shm/scsim-{}/{}", std::process::id(), tag));
        let _ = std::fs::remove_dir_all(&root);
        for d in ["links", "work", "ws", "side/actors"] {
            std::fs::create_dir_all(root.join(d)).expect("tmpfs scratch");
        }
        std::env::set_var("SCSIM_SIDE", root.join("side"));
        Scratch { root }
    }
    pub fn links(&self) -> PathBuf {
        self.root.join("links")
    }
    pub fn work(&self) -> PathBuf {
        self.root.join("work")
    }
    pub fn ws(&self) -> PathBuf {
        self.root.join("ws")
    }
    pub fn side(&self) -> PathBuf {
        self.root.join("side")
    }
    /// remove and recreate links/ and work/ (between repetitions of one world)
    pub fn reset_dirs(&self) {
        for d in ["links", "work"] {
            let p = self.root.join(d);
            let _ = std::fs::remove_dir_all(&p);
            std::fs::create_dir_all(&p).expect("tmpfs scratch");
        }
        let _ = std::fs::remove_dir_all(self.root.join("linkstore"));
        let _ = std::fs::remove_file(self.side().join("events.log"));
    }
    /// Between repetitions when the link directory is updated in place: only work/ is recreated; of links/
    /// everything that is not a regular file about to be rewritten (`keep`, paths relative to links/) goes.
    pub fn reset_in_place(&self, keep: &std::collections::BTreeSet<String>) {
        let p = self.root.join("work");
        let _ = std::fs::remove_dir_all(&p);
        std::fs::create_dir_all(&p).expect("tmpfs scratch");
        let _ = std::fs::remove_dir_all(self.root.join("linkstore"));
        let _ = std::fs::remove_file(self.side().join("events.log"));
        fn prune(base: &Path, d: &Path, keep: &std::collections::BTreeSet<String>) {
            if let Ok(rd) = std::fs::read_dir(d) {
                for e in rd.flatten() {
                    let p = e.path();
                    let rel = p.strip_prefix(base).unwrap().to_string_lossy().to_string();
                    match std::fs::symlink_metadata(&p) {
                        Ok(m) if m.is_dir() => {
                            if keep.iter().any(|k| k.starts_with(&format!("{rel}/"))) {
                                prune(base, &p, keep);
                            } else {
                                let _ = std::fs::remove_dir_all(&p);
                            }
                        }
                        Ok(m) if m.is_file() && keep.contains(&rel) => {}
                        _ => {
                            let _ = std::fs::remove_file(&p);
                        }
                    }
                }
            }
        }
        let links = self.links();
        std::fs::create_dir_all(&links).expect("tmpfs scratch");
        prune(&links, &links, keep);
    }
    pub fn events(&self) -> Vec<String> {
        std::fs::read_to_string(self.side().join("events.log"))
            .map(|s| s.lines().map(|l| l.to_string()).collect())
            .unwrap_or_default()
    }
}

impl Drop for Scratch {
    fn drop(&mut self) {
        let _ = std::fs::remove_dir_all(&self.root);
    }
}

pub fn cleanup_process_scratch() {
    let _ = std::fs::remove_dir_all(format!("/dev/shm/scsim-{}", std::process::id()));
    let _ = std::fs::remove_file(format!("/dev/shm/scsim-current-{}.json", std::process::id()));
}

pub fn listing(dir: &Path) -> Vec<String> {
    fn walk(base: &Path, d: &Path, out: &mut Vec<String>) {
        if let Ok(rd) = std::fs::read_dir(d) {
            for e in rd.flatten() {
                let p = e.path();
                let rel = p.strip_prefix(base).unwrap().to_string_lossy().to_string();
                let md = std::fs::symlink_metadata(&p);
                match md {
                    Ok(m) if m.is_dir() => {
                        out.push(format!("{}/", rel));
                        walk(base, &p, out);
                    }
                    _ => out.push(rel),
                }
            }
        }
    }
    let mut out = vec![];
    walk(dir, dir, &mut out);
    out.sort();
    out
}

#[derive(Clone, Debug, Serialize, PartialEq)]
pub struct Verdict {
    pub ok: bool,
    /// error class (enum variant) when !ok
    pub class: String,
    pub msg: String,
    pub panic: Option<String>,
    /// summary link's signed part on Ok
    pub summary: Option<Value>,
    pub clock_reads: usize,
    pub hash_draws: usize,
}

impl Verdict {
    pub fn short(&self) -> String {
        if let Some(p) = &self.panic {
            format!("PANIC({})", p)
        } else if self.ok {
            "Ok".to_string()
        } else {
            format!("Err({}: {})", self.class, self.msg)
        }
    }
    pub fn verdict_class(&self) -> &'static str {
        if self.panic.is_some() {
            "panic"
        } else if self.ok {
            "ok"
        } else {
            "err"
        }
    }
}

pub fn err_class(e: &in_toto::Error) -> String {
    let d = format!("{:?}", e);
    d.split(|c: char| !c.is_alphanumeric()).next().unwrap_or("").to_string()
}

fn panic_text(p: Box<dyn std::any::Any + Send>) -> String {
    if let Some(s) = p.downcast_ref::<&str>() {
        s.to_string()
    } else if let Some(s) = p.downcast_ref::<String>() {
        s.clone()
    } else {
        "non-string panic".into()
    }
}

/// Run `f` in a fresh thread whose hash maps are keyed from `hash_seed`; catch panics.
pub fn in_fresh_thread<T: Send + 'static>(
    hash_seed: u64,
    f: impl FnOnce() -> T + Send + 'static,
) -> Result<T, String> {
    seams::hash_seed(hash_seed);
    let h = std::thread::Builder::new()
        .stack_size(8 << 20)
        .spawn(f)
        .expect("spawn");
    h.join().map_err(|p| {
        let loc = crate::LAST_PANIC.lock().map(|g| g.clone()).unwrap_or_default();
        if loc.is_empty() { panic_text(p) } else { loc }
    })
}

type Job = Box<dyn FnOnce() + Send>;
thread_local! {
    /// the worker's long-lived "verifier thread" (one per harness thread that asks for it)
    static VERIFIER: std::cell::RefCell<Option<std::sync::mpsc::Sender<Job>>> = std::cell::RefCell::new(None);
}

/// Run `f` on this worker's long-lived verifier thread: library calls made through it share whatever
/// thread-local state the library keeps (a fresh thread per call would hide a thread-local that is set
/// by one call and read by the next). The thread's hash-map keys are drawn once, from the `hash_seed` of
/// the call that started it. A panic ends the thread; the next call starts a new one.
pub fn in_same_thread<T: Send + 'static>(hash_seed: u64, f: impl FnOnce() -> T + Send + 'static) -> Result<T, String> {
    let (rtx, rrx) = std::sync::mpsc::channel::<Result<T, String>>();
    let job: Job = Box::new(move || {
        let r = std::panic::catch_unwind(std::panic::AssertUnwindSafe(f)).map_err(|p| {
            let loc = crate::LAST_PANIC.lock().map(|g| g.clone()).unwrap_or_default();
            if loc.is_empty() { panic_text(p) } else { loc }
        });
        let _ = rtx.send(r);
    });
    let sent = VERIFIER.with(|v| {
        let mut v = v.borrow_mut();
        if v.is_none() {
            seams::hash_seed(hash_seed);
            let (tx, rx) = std::sync::mpsc::channel::<Job>();
            std::thread::Builder::new()
                .stack_size(8 << 20)
                .spawn(move || {
                    while let Ok(j) = rx.recv() {
                        j();
                    }
                })
                .expect("spawn verifier thread");
            *v = Some(tx);
        }
        v.as_ref().unwrap().send(job).is_ok()
    });
    let r = if sent { rrx.recv().unwrap_or_else(|_| Err("verifier thread died".into())) } else { Err("verifier thread gone".into()) };
    if r.is_err() {
        reset_same_thread();
    }
    r
}

/// End this worker's verifier thread (a replay starts from a process that has run nothing).
pub fn reset_same_thread() {
    VERIFIER.with(|v| *v.borrow_mut() = None);
}

/// The library echoes every child's stdout/stderr to the process's own (runlib.rs); keep that off
/// the harness's output while a library call runs.
pub fn silenced<T>(f: impl FnOnce() -> T) -> T {
    unsafe {
        use std::io::Write;
        let _ = std::io::stdout().flush();
        let null = libc::open(b"/dev/null\0".as_ptr() as *const libc::c_char, libc::O_WRONLY);
        let o1 = libc::dup(1);
        let o2 = libc::dup(2);
        if null >= 0 {
            libc::dup2(null, 1);
            libc::dup2(null, 2);
        }
        let r = f();
        let _ = std::io::stdout().flush();
        if o1 >= 0 {
            libc::dup2(o1, 1);
            libc::close(o1);
        }
        if o2 >= 0 {
            libc::dup2(o2, 2);
            libc::close(o2);
        }
        if null >= 0 {
            libc::close(null);
        }
        r
    }
}

pub struct VerifyCall<'a> {
    pub layout_bytes: &'a [u8],
    pub caller_keys: Vec<(String, PublicKey)>,
    pub link_dir: &'a Path,
    pub cwd: &'a Path,
    pub clock: &'a [(i64, u32)],
    pub hash_seed: u64,
    pub step_name: Option<String>,
    /// run the call on the worker's long-lived verifier thread instead of a fresh one
    pub same_thread: bool,
    /// entries of the layout's signature list repeated in memory after parsing
    pub mem_sigdup: Vec<usize>,
}

pub enum CallResult {
    /// the root layout document could not be parsed: there is nothing to call the verifier with
    NoLayout(String),
    Verdict(Verdict),
}

/// One call of the public final-product verification entry point.
pub fn verify(call: &VerifyCall) -> CallResult {
    let text = match std::str::from_utf8(call.layout_bytes) {
        Ok(t) => t.to_string(),
        Err(e) => return CallResult::NoLayout(format!("utf8: {e}")),
    };
    let keys: Vec<(String, PublicKey)> = call.caller_keys.clone();
    let link_dir = call.link_dir.to_string_lossy().to_string();
    let step_name = call.step_name.clone();
    std::env::set_current_dir(call.cwd).expect("chdir work");
    seams::clock_arm(call.clock);
    let same_thread = call.same_thread;
    let mem_sigdup = call.mem_sigdup.clone();
    let body = move || -> Result<Result<Value, (String, String)>, String> {
        let mut mb: Metablock = match serde_json::from_str(&text) {
            Ok(m) => m,
            Err(e) => return Err(format!("{e}")),
        };
        for i in &mem_sigdup {
            if let Some(sg) = mb.signatures.get(*i).cloned() {
                mb.signatures.push(sg);
            }
        }
        let mut map: HashMap<KeyId, PublicKey> = HashMap::new();
        for (id, k) in keys {
            match id.parse::<KeyId>() {
                Ok(kid) => {
                    map.insert(kid, k);
                }
                Err(_) => {}
            }
        }
        match in_toto::verifylib::in_toto_verify(&mb, map, &link_dir, step_name.as_deref()) {
            Ok(summary) => {
                let v = match &summary.metadata {
                    MetadataWrapper::Link(l) => serde_json::to_value(l).unwrap_or(Value::Null),
                    MetadataWrapper::Layout(_) => Value::String("layout-as-summary".into()),
                };
                Ok(Ok(v))
            }
            Err(e) => Ok(Err((err_class(&e), format!("{}", e)))),
        }
    };
    let r = silenced(|| if same_thread { in_same_thread(call.hash_seed, body) } else { in_fresh_thread(call.hash_seed, body) });
    let clock_reads = seams::clock_disarm();
    // (a long-lived thread draws its hash-map keys once, whenever it first needs them: not part of the log)
    let hash_draws = if same_thread { 0 } else { seams::hash_draws() };
    let mk = |ok, class: &str, msg: &str, panic: Option<String>, summary| Verdict {
        ok,
        class: class.into(),
        msg: msg.into(),
        panic,
        summary,
        clock_reads,
        hash_draws,
    };
    match r {
        Err(p) => CallResult::Verdict(mk(false, "", "", Some(p), None)),
        Ok(Err(parse)) => CallResult::NoLayout(parse),
        Ok(Ok(Ok(v))) => CallResult::Verdict(mk(true, "", "", None, Some(v))),
        Ok(Ok(Err((c, m)))) => CallResult::Verdict(mk(false, &c, &m, None, None)),
    }
}

/// The same call made by `n` caller threads at once (released together by a barrier), each with its own
/// parsed layout object and key map: whatever the library shares between callers (statics, caches,
/// counters) is then used from several threads. Only for worlds without inspections (the working
/// directory is process-wide). What is kept of each verdict is its class and, on Ok, the summary: which
/// of several errors a failing call reports may depend on the order its maps iterate in.
pub fn verify_concurrently(call: &VerifyCall, n: usize) -> Vec<Verdict> {
    let text = match std::str::from_utf8(call.layout_bytes) {
        Ok(t) => t.to_string(),
        Err(_) => return vec![],
    };
    std::env::set_current_dir(call.cwd).expect("chdir work");
    seams::clock_arm(call.clock);
    seams::hash_seed(call.hash_seed);
    let barrier = std::sync::Arc::new(std::sync::Barrier::new(n));
    let link_dir = call.link_dir.to_string_lossy().to_string();
    let results: Vec<Result<Result<Value, String>, String>> = silenced(|| {
        let handles: Vec<_> = (0..n)
            .map(|_| {
                let (text, keys, link_dir, step_name, barrier) = (text.clone(), call.caller_keys.clone(), link_dir.clone(), call.step_name.clone(), barrier.clone());
                std::thread::Builder::new()
                    .stack_size(8 << 20)
                    .spawn(move || -> Result<Value, String> {
                        let mb: Metablock = serde_json::from_str(&text).map_err(|e| format!("parse: {e}"))?;
                        let mut map: HashMap<KeyId, PublicKey> = HashMap::new();
                        for (id, k) in keys {
                            if let Ok(kid) = id.parse::<KeyId>() {
                                map.insert(kid, k);
                            }
                        }
                        barrier.wait();
                        match in_toto::verifylib::in_toto_verify(&mb, map, &link_dir, step_name.as_deref()) {
                            Ok(summary) => Ok(match &summary.metadata {
                                MetadataWrapper::Link(l) => serde_json::to_value(l).unwrap_or(Value::Null),
                                MetadataWrapper::Layout(_) => Value::String("layout-as-summary".into()),
                            }),
                            Err(e) => Err(err_class(&e)),
                        }
                    })
                    .expect("spawn")
            })
            .collect();
        handles
            .into_iter()
            .map(|h| {
                h.join().map_err(|p| {
                    let loc = crate::LAST_PANIC.lock().map(|g| g.clone()).unwrap_or_default();
                    if loc.is_empty() { panic_text(p) } else { loc }
                })
            })
            .collect()
    });
    let reads = seams::clock_disarm();
    results
        .into_iter()
        .map(|r| match r {
            Err(p) => Verdict { ok: false, class: String::new(), msg: String::new(), panic: Some(p), summary: None, clock_reads: 0, hash_draws: 0 },
            Ok(Ok(v)) => Verdict { ok: true, class: String::new(), msg: String::new(), panic: None, summary: Some(v), clock_reads: if reads >= n { 1 } else { 0 }, hash_draws: 0 },
            Ok(Err(_)) => Verdict { ok: false, class: String::new(), msg: String::new(), panic: None, summary: None, clock_reads: 0, hash_draws: 0 },
        })
        .collect()
}

/// scratch paths contain the worker's pid; keep it out of the event-log digest
pub fn mask_scratch(s: &str) -> String {
    let mut out = String::new();
    let mut rest = s;
    while let Some(i) = rest.find("scsim-") {
        out.push_str(&rest[..i + 6]);
        rest = &rest[i + 6..];
        let digits = rest.chars().take_while(|c| c.is_ascii_digit()).count();
        out.push('#');
        rest = &rest[digits..];
        // and the worker's scratch tag: "/<tag>/"
        if let Some(r2) = rest.strip_prefix('/') {
            if let Some(j) = r2.find('/') {
                rest = &r2[j..];
            }
        }
    }
    out.push_str(rest);
    out
}

