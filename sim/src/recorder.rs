//! The recorder scenario (C18): a generated file-system history on tmpfs, then `record_artifacts`
//! / `in_toto_run` with a scripted actor as the command, optionally under read(2) faults. Oracle: an
//! independent walk (own recursion over read_dir + metadata, ancestor set on (dev, ino)), one-shot
//! digests over whole file contents, own longest-prefix strip.

use crate::checks::{site_of, RunRecord, Tier, Trace, Violation};
use crate::exec::{self, Scratch};
use crate::gen;
use crate::oracle::Finding;
use crate::prng::{Digest, Rng};
use crate::simio::SimReader;
use crate::world::{ActorScript, ExitSpec, FsOp};
use serde::{Deserialize, Serialize};
use serde_json::{json, Value};
use std::collections::{BTreeMap, BTreeSet};
use std::os::unix::fs::MetadataExt;
use std::path::{Path, PathBuf};

#[derive(Clone, Debug, Serialize, Deserialize, PartialEq)]
pub enum TreeOp {
    Dir(String),
    File { path: String, size: usize, seed: u64 },
    /// symbolic link at `path`; `absolute` targets are made absolute below the workspace root
    Link { path: String, target: String, absolute: bool },
    /// a named pipe (nobody ever writes to it)
    Fifo(String),
    /// a unix domain socket (bound and left behind)
    Socket(String),
    /// a directory with one file on ANOTHER file system (the root disk; the workspace is tmpfs), and a
    /// symbolic link to it at `path`
    XdevDir { path: String, seed: u64 },
}

#[derive(Clone, Debug, Serialize, Deserialize, PartialEq)]
pub struct RunPart {
    pub name: String,
    pub actor: ActorScript,
    pub use_run_dir: bool,
}

#[derive(Clone, Debug, Serialize, Deserialize, PartialEq)]
pub struct RecorderTrace {
    pub tree: Vec<TreeOp>,
    pub paths: Vec<String>,
    pub lstrip: Option<Vec<String>>,
    pub algs: Option<Vec<String>>,
    /// None: record_artifacts only; Some: in_toto_run with this command
    pub run: Option<RunPart>,
    /// read(2) faults while the library runs: (short, eintr, eio) per mille
    pub read_faults: Option<(u64, u64, u64)>,
    pub io_seed: u64,
    /// direct drive of calculate_hashes through a simulated stream instead of the above
    pub stream: Option<(usize, bool, u64, Option<usize>)>,
    pub labels: Vec<String>,
    /// another recording on the same thread right before this one (0 none): 1 a path that does not exist (the
    /// call fails), 2 another directory whose files bear the same relative names with other content, 3 a step
    /// whose command cannot be started (the call fails after its materials were recorded) — whatever an earlier
    /// call, or its error path, leaves behind on the thread must not show in this recording
    #[serde(default)]
    pub prelude: u8,
}

pub fn file_content(size: usize, seed: u64) -> Vec<u8> {
    Rng::stream(seed, "content").bytes(size)
}

fn build_tree(root: &Path, ops: &[TreeOp]) {
    for op in ops {
        match op {
            TreeOp::Dir(p) => {
                let _ = std::fs::create_dir_all(root.join(p));
            }
            TreeOp::File { path, size, seed } => {
                let f = root.join(path);
                if let Some(d) = f.parent() {
                    let _ = std::fs::create_dir_all(d);
                }
                let _ = std::fs::write(f, file_content(*size, *seed));
            }
            TreeOp::XdevDir { path, seed } => {
                let ext = PathBuf::from(format!("/var/tmp/scsim-xdev-{}-{}", std::process::id(), seed % 100_000));
                let _ = std::fs::create_dir_all(ext.join("sub"));
                let _ = std::fs::write(ext.join("other-fs.c"), file_content(100, *seed));
                let _ = std::fs::write(ext.join("sub/deep.c"), file_content(2000, seed ^ 1));
                let f = root.join(path);
                if let Some(d) = f.parent() {
                    let _ = std::fs::create_dir_all(d);
                }
                let _ = std::os::unix::fs::symlink(&ext, f);
            }
            TreeOp::Fifo(p) => {
                let f = root.join(p);
                if let Some(d) = f.parent() {
                    let _ = std::fs::create_dir_all(d);
                }
                if let Ok(c) = std::ffi::CString::new(f.to_string_lossy().as_bytes()) {
                    unsafe {
                        libc::mkfifo(c.as_ptr(), 0o600);
                    }
                }
            }
            TreeOp::Socket(p) => {
                let f = root.join(p);
                if let Some(d) = f.parent() {
                    let _ = std::fs::create_dir_all(d);
                }
                let _ = std::os::unix::net::UnixListener::bind(&f);
            }
            TreeOp::Link { path, target, absolute } => {
                let f = root.join(path);
                if let Some(d) = f.parent() {
                    let _ = std::fs::create_dir_all(d);
                }
                let t = if *absolute { root.join(target).to_string_lossy().to_string() } else { target.clone() };
                let _ = std::os::unix::fs::symlink(t, f);
            }
        }
    }
}

// ---------------------------------------------------------------------------------------------
// the independent walk
// ---------------------------------------------------------------------------------------------
pub type Snapshot = BTreeMap<String, BTreeMap<String, String>>;

#[derive(Default, Debug, Clone)]
pub struct Expect {
    /// key -> list of distinct files (dev, ino) with their digests that receive this key
    pub entries: BTreeMap<String, Vec<((u64, u64), BTreeMap<String, String>)>>,
    /// path prefixes (as recorded) through a cyclic link: whatever lies below is don't-care
    pub cyclic: Vec<String>,
    /// dangling links: their own key is don't-care and an error is tolerated
    pub dangling: Vec<String>,
    /// the same file is reached twice under one key (overlapping arguments): error or one entry, both fine
    pub same_file_twice: bool,
    pub unreadable: bool,
}

pub(crate) fn clean(p: &str) -> String {
    let abs = p.starts_with('/');
    let mut out: Vec<&str> = vec![];
    for c in p.split('/') {
        match c {
            "" | "." => {}
            ".." => {
                if let Some(l) = out.last() {
                    if *l != ".." {
                        out.pop();
                        continue;
                    }
                }
                if !abs {
                    out.push("..");
                }
            }
            x => out.push(x),
        }
    }
    let j = out.join("/");
    if abs {
        format!("/{j}")
    } else if j.is_empty() {
        ".".to_string()
    } else {
        j
    }
}

fn strip(path: &str, lstrip: &Option<Vec<String>>) -> String {
    match lstrip {
        None => path.to_string(),
        Some(ps) => {
            let best = ps.iter().filter(|p| path.starts_with(p.as_str())).max_by_key(|p| p.len());
            match best {
                Some(p) => path[p.len()..].to_string(),
                None => path.to_string(),
            }
        }
    }
}

fn digests(bytes: &[u8], algs: &[String]) -> BTreeMap<String, String> {
    let mut m = BTreeMap::new();
    for a in algs {
        match a.as_str() {
            "sha256" => {
                m.insert(a.clone(), gen::sha256_hex(bytes));
            }
            "sha512" => {
                m.insert(a.clone(), gen::sha512_hex(bytes));
            }
            _ => {}
        }
    }
    m
}

fn walk(p: &str, lstrip: &Option<Vec<String>>, algs: &[String], ancestors: &mut Vec<(u64, u64)>, e: &mut Expect, top: bool) {
    let md = match std::fs::metadata(p) {
        Ok(m) => m,
        Err(_) => {
            if std::fs::symlink_metadata(p).map(|m| m.file_type().is_symlink()).unwrap_or(false) {
                // dangling link or a link cycle without a way out
                e.dangling.push(strip(p, lstrip));
            } else {
                e.unreadable = true;
            }
            return;
        }
    };
    if md.is_file() {
        let bytes = std::fs::read(p).unwrap_or_default();
        let key = strip(p, lstrip);
        let id = (md.dev(), md.ino());
        let slot = e.entries.entry(key).or_default();
        if slot.iter().any(|(i, _)| *i == id) {
            // the same file under the same key again
            let _ = top;
            e.same_file_twice = true;
        } else {
            slot.push((id, digests(&bytes, algs)));
        }
    } else if md.is_dir() {
        let id = (md.dev(), md.ino());
        if ancestors.contains(&id) {
            e.cyclic.push(p.to_string());
            e.cyclic.push(strip(p, lstrip));
            return;
        }
        ancestors.push(id);
        let mut names: Vec<String> = match std::fs::read_dir(p) {
            Ok(rd) => rd.flatten().map(|d| d.file_name().to_string_lossy().to_string()).collect(),
            Err(_) => {
                e.unreadable = true;
                vec![]
            }
        };
        names.sort();
        for n in names {
            let child = if p == "." { n.clone() } else { format!("{}/{}", p, n) };
            walk(&child, lstrip, algs, ancestors, e, false);
        }
        ancestors.pop();
    }
}

pub fn expect_for(paths: &[String], lstrip: &Option<Vec<String>>, algs: &[String]) -> Expect {
    let mut e = Expect::default();
    for p in paths {
        let c = clean(p);
        let mut anc = vec![];
        walk(&c, lstrip, algs, &mut anc, &mut e, true);
    }
    e
}

// ---------------------------------------------------------------------------------------------
// execution
// ---------------------------------------------------------------------------------------------
#[derive(Debug, Clone)]
pub struct RecOutcome {
    pub materials_expect: Expect,
    pub products_expect: Expect,
    pub result: Result<(Snapshot, Snapshot, Value), String>,
    pub err_class: String,
    pub panic: Option<String>,
    pub read_stats: (usize, usize, usize, usize),
    pub stream_result: Option<String>,
    /// `record_artifact` on single files of the tree: (path, result as (key, digests))
    pub singles: Vec<(String, Result<(String, BTreeMap<String, String>), String>)>,
}

pub(crate) fn to_snapshot(m: &BTreeMap<in_toto::models::VirtualTargetPath, in_toto::models::TargetDescription>) -> Snapshot {
    let v = serde_json::to_value(m).unwrap_or(Value::Null);
    let mut out = Snapshot::new();
    if let Some(o) = v.as_object() {
        for (k, d) in o {
            let mut dm = BTreeMap::new();
            if let Some(dd) = d.as_object() {
                for (a, h) in dd {
                    dm.insert(a.clone(), h.as_str().unwrap_or("").to_string());
                }
            }
            out.insert(k.clone(), dm);
        }
    }
    out
}

pub fn run_recorder(t: &RecorderTrace, scratch: &Scratch) -> RecOutcome {
    // fresh workspace
    let ws = scratch.ws();
    let _ = std::fs::remove_dir_all(&ws);
    std::fs::create_dir_all(&ws).expect("ws");
    let _ = std::fs::remove_file(scratch.side().join("events.log"));
    build_tree(&ws, &t.tree);
    let algs: Vec<String> = t.algs.clone().unwrap_or_else(|| vec!["sha256".to_string()]);
    std::env::set_current_dir(&ws).expect("chdir ws");
    let paths: Vec<String> = t.paths.iter().map(|p| p.replace("@WS", &ws.to_string_lossy())).collect();
    let lstrip: Option<Vec<String>> = t.lstrip.as_ref().map(|v| v.iter().map(|p| p.replace("@WS", &ws.to_string_lossy())).collect());
    let materials_expect = expect_for(&paths, &lstrip, &algs);
    if let Some(r) = &t.run {
        std::fs::write(scratch.side().join("actors").join(format!("{}.json", r.actor.id.replace('/', "_"))), serde_json::to_vec(&r.actor).unwrap()).expect("actor script");
    }
    let dev = std::fs::metadata(&ws).map(|m| m.dev()).unwrap_or(0);
    let t2 = t.clone();
    let ws2 = ws.clone();
    // the prelude's own directory (outside the workspace): files named like the tree's, other content
    let pre_dir = scratch.side().join("prelude-ws");
    if t.prelude != 0 {
        let _ = std::fs::remove_dir_all(&pre_dir);
        let _ = std::fs::create_dir_all(&pre_dir);
        let mut n = 0;
        for op in &t.tree {
            if let TreeOp::File { path, .. } = op {
                let f = pre_dir.join(path);
                if let Some(d) = f.parent() {
                    let _ = std::fs::create_dir_all(d);
                }
                let _ = std::fs::write(&f, format!("prelude content of {path}"));
                n += 1;
                if n >= 6 {
                    break;
                }
            }
        }
    }
    let pre_dir2 = pre_dir.clone();
    let (paths2, lstrip2) = (paths.clone(), lstrip.clone());
    let r = exec::silenced(|| {
        exec::in_fresh_thread(t.io_seed, move || {
            let p: Vec<&str> = paths2.iter().map(|s| s.as_str()).collect();
            let ls_owned: Option<Vec<&str>> = lstrip2.as_ref().map(|v| v.iter().map(|s| s.as_str()).collect());
            let al_owned: Option<Vec<&str>> = t2.algs.as_ref().map(|v| v.iter().map(|s| s.as_str()).collect());
            if t2.prelude != 0 && std::env::set_current_dir(&pre_dir2).is_ok() {
                match t2.prelude {
                    1 => {
                        let _ = in_toto::runlib::record_artifacts(&["no-such-directory/below"], al_owned.as_deref(), None);
                    }
                    2 => {
                        let _ = in_toto::runlib::record_artifacts(&["."], al_owned.as_deref(), None);
                        let wsd = pre_dir2.to_string_lossy().to_string();
                        let _ = in_toto::runlib::record_artifacts(&[wsd.as_str()], al_owned.as_deref(), Some(&[wsd.as_str()]));
                    }
                    _ => {
                        let _ = in_toto::runlib::in_toto_run("prelude", None, &["."], &["."], &["/nonexistent/scsim-prelude-command"], None, al_owned.as_deref(), None);
                    }
                }
                let _ = std::env::set_current_dir(&ws2);
            }
            if let Some((s, e, io)) = t2.read_faults {
                crate::seams::read_arm(dev, t2.io_seed, s, e, io);
            }
            let out: Result<(Snapshot, Snapshot, Value), (String, String)> = match &t2.run {
                None => in_toto::runlib::record_artifacts(&p, al_owned.as_deref(), ls_owned.as_deref())
                    .map(|m| (to_snapshot(&m), Snapshot::new(), Value::Null))
                    .map_err(|e| (exec::err_class(&e), e.to_string())),
                Some(rp) => {
                    let cmd = crate::world::actor_cmd(&rp.actor);
                    let c: Vec<&str> = cmd.iter().map(|s| s.as_str()).collect();
                    let wsd = ws2.to_string_lossy().to_string();
                    in_toto::runlib::in_toto_run(&rp.name, if rp.use_run_dir { Some(&wsd) } else { None }, &p, &p, &c, None, al_owned.as_deref(), ls_owned.as_deref())
                        .map(|mb| match mb.metadata {
                            in_toto::models::MetadataWrapper::Link(l) => (to_snapshot(&l.materials), to_snapshot(&l.products), json!({"name": l.name, "byproducts": serde_json::to_value(&l.byproducts).unwrap_or(Value::Null)})),
                            _ => (Snapshot::new(), Snapshot::new(), Value::Null),
                        })
                        .map_err(|e| (exec::err_class(&e), e.to_string()))
                }
            };
            let stats = if t2.read_faults.is_some() { crate::seams::read_disarm() } else { (0, 0, 0, 0) };
            // the single-file entry point on some of the tree's regular files, named as the tree names them
            let mut singles = vec![];
            if t2.run.is_none() {
                let algs: Vec<in_toto::crypto::HashAlgorithm> = match &t2.algs {
                    None => vec![in_toto::crypto::HashAlgorithm::Sha256],
                    Some(v) => v
                        .iter()
                        .map(|a| match a.as_str() {
                            "sha256" => in_toto::crypto::HashAlgorithm::Sha256,
                            "sha512" => in_toto::crypto::HashAlgorithm::Sha512,
                            o => in_toto::crypto::HashAlgorithm::Unknown(o.to_string()),
                        })
                        .collect(),
                };
                let files: Vec<&String> = t2.tree.iter().filter_map(|op| if let TreeOp::File { path, .. } = op { Some(path) } else { None }).collect();
                for (i, path) in files.iter().enumerate() {
                    if i % 3 != (t2.io_seed % 3) as usize || singles.len() >= 4 {
                        continue;
                    }
                    let r = in_toto::runlib::record_artifact(path, &algs, ls_owned.as_deref())
                        .map(|(k, d)| {
                            let mut one = BTreeMap::new();
                            one.insert(k, d);
                            let snap = to_snapshot(&one);
                            snap.into_iter().next().unwrap_or_default()
                        })
                        .map_err(|e| e.to_string());
                    singles.push(((*path).clone(), r));
                }
            }
            (out, stats, singles)
        })
    });
    let products_expect = expect_for(&paths, &lstrip, &algs);
    std::env::set_current_dir("/").ok();
    for op in &t.tree {
        if let TreeOp::XdevDir { seed, .. } = op {
            let _ = std::fs::remove_dir_all(format!("/var/tmp/scsim-xdev-{}-{}", std::process::id(), seed % 100_000));
        }
    }
    match r {
        Ok((Ok(x), stats, singles)) => RecOutcome { materials_expect, products_expect, result: Ok(x), err_class: String::new(), panic: None, read_stats: stats, stream_result: None, singles },
        Ok((Err((c, m)), stats, singles)) => RecOutcome { materials_expect, products_expect, result: Err(m), err_class: c, panic: None, read_stats: stats, stream_result: None, singles },
        Err(p) => {
            crate::seams::read_disarm();
            RecOutcome { materials_expect, products_expect, result: Err(String::new()), err_class: String::new(), panic: Some(p), read_stats: (0, 0, 0, 0), stream_result: None, singles: vec![] }
        }
    }
}

pub(crate) fn compare(what: &str, got: &Snapshot, e: &Expect, f: &mut Vec<Finding>) {
    let dont_care = |k: &str| e.dangling.iter().any(|d| d == k) || e.cyclic.iter().any(|c| k.starts_with(&format!("{}/", c)) || k == c);
    for (k, files) in &e.entries {
        if dont_care(k) {
            continue;
        }
        match got.get(k) {
            None => {
                f.push(Finding { prop: "C18".into(), clause: format!("{what}-file-not-recorded"), detail: format!("regular file reachable as '{k}' is missing from the recorded {what}") });
                return;
            }
            Some(d) => {
                if files.len() == 1 && *d != files[0].1 {
                    f.push(Finding { prop: "C18".into(), clause: format!("{what}-wrong-digest"), detail: format!("'{k}': recorded {:?}, true digests {:?}", d, files[0].1) });
                    return;
                }
                if files.len() > 1 {
                    f.push(Finding {
                        prop: "C18".into(),
                        clause: format!("{what}-key-collision-silently-resolved"),
                        detail: format!("{} different files receive the key '{k}' and recording succeeded", files.len()),
                    });
                    return;
                }
            }
        }
    }
    for k in got.keys() {
        if !e.entries.contains_key(k) && !dont_care(k) {
            f.push(Finding { prop: "C18".into(), clause: format!("{what}-extra-entry"), detail: format!("'{k}' is recorded but no regular file is reachable under that key") });
            return;
        }
    }
}

pub fn judge_recorder(t: &RecorderTrace, o: &RecOutcome) -> Vec<Finding> {
    let mut f = vec![];
    if let Some(p) = &o.panic {
        f.push(Finding { prop: "C14".into(), clause: "panic-in-recorder".into(), detail: p.clone() });
        return f;
    }
    // the single-file entry point: key = the path as given with the longest matching strip-prefix removed,
    // digests = those of the file's bytes
    {
        let algs: Vec<String> = t.algs.clone().unwrap_or_else(|| vec!["sha256".to_string()]);
        let known_algs = algs.iter().all(|x| x == "sha256" || x == "sha512");
        for (path, r) in &o.singles {
            let spec = t.tree.iter().rev().find_map(|op| if let TreeOp::File { path: p, size, seed } = op { if p == path { Some((*size, *seed)) } else { None } } else { None });
            let (size, seed) = match spec {
                Some(x) => x,
                None => continue,
            };
            // (a later tree operation may have replaced the file by something else)
            let last_is_file = t.tree.iter().rev().find_map(|op| match op {
                TreeOp::File { path: p, .. } if p == path => Some(true),
                TreeOp::Link { path: p, .. } | TreeOp::Fifo(p) | TreeOp::Socket(p) | TreeOp::Dir(p) if p == path => Some(false),
                _ => None,
            });
            if last_is_file != Some(true) || !known_algs {
                continue;
            }
            let want_key = strip(path, &t.lstrip);
            let want = digests(&file_content(size, seed), &algs);
            match r {
                Ok((k, d)) => {
                    if *k != want_key || *d != want {
                        f.push(Finding { prop: "C18".into(), clause: "single-file-record-differs".into(), detail: format!("record_artifact('{path}') = ('{k}', {:?}), expected ('{want_key}', {:?})", d, want) });
                        return f;
                    }
                }
                Err(e) => {
                    if !want_key.is_empty() {
                        f.push(Finding { prop: "C18".into(), clause: "single-file-record-fails".into(), detail: format!("record_artifact('{path}') failed on a regular file: {e}") });
                        return f;
                    }
                }
            }
        }
    }
    let faults = t.read_faults.is_some();
    let unknown_alg = t.algs.as_ref().map(|a| a.iter().any(|x| x != "sha256" && x != "sha512")).unwrap_or(false);
    let collisions = o.materials_expect.entries.values().any(|v| v.len() > 1) || (t.run.is_some() && o.products_expect.entries.values().any(|v| v.len() > 1));
    let tolerated_err = faults
        || unknown_alg
        || collisions
        || o.materials_expect.same_file_twice
        || o.products_expect.same_file_twice
        || !o.materials_expect.dangling.is_empty()
        || !o.products_expect.dangling.is_empty()
        || o.materials_expect.unreadable
        || o.products_expect.unreadable
        // several path arguments over a tree with link cycles: how far a walk goes round a cycle before
        // it stops is left open, and with it whether two arguments reach one file under one key
        || (t.paths.len() > 1 && (!o.materials_expect.cyclic.is_empty() || !o.products_expect.cyclic.is_empty()));
    match &o.result {
        Err(m) => {
            if let Some(rp) = &t.run {
                // a command that cannot start, dies by a signal or prints non-UTF-8 legitimately fails the run
                if !matches!(rp.actor.exit, ExitSpec::Code(_)) || std::str::from_utf8(&rp.actor.stdout).is_err() || std::str::from_utf8(&rp.actor.stderr).is_err() {
                    return f;
                }
            }
            if !tolerated_err {
                f.push(Finding { prop: "C18".into(), clause: "valid-tree-rejected".into(), detail: format!("recording failed on a tree with only regular files, directories and resolvable links: {} {}", o.err_class, m) });
            }
        }
        Ok((mats, prods, extra)) => {
            if unknown_alg {
                f.push(Finding { prop: "C18".into(), clause: "unknown-algorithm-accepted".into(), detail: format!("{:?}", t.algs) });
                return f;
            }
            compare("materials", mats, &o.materials_expect, &mut f);
            if let Some(rp) = &t.run {
                if f.is_empty() {
                    compare("products", prods, &o.products_expect, &mut f);
                }
                // (the property speaks of the exit status; what a run records for a command that was
                // killed by a signal is left open)
                if f.is_empty() && matches!(rp.actor.exit, ExitSpec::Code(_)) {
                    let by = &extra["byproducts"];
                    let want_out = String::from_utf8_lossy(&rp.actor.stdout).to_string();
                    let want_err = String::from_utf8_lossy(&rp.actor.stderr).to_string();
                    let want_code = match rp.actor.exit {
                        ExitSpec::Code(c) => c as i64,
                        _ => 0,
                    };
                    if by["stdout"].as_str() != Some(want_out.as_str()) || by["stderr"].as_str() != Some(want_err.as_str()) || by["return-value"].as_i64() != Some(want_code) {
                        f.push(Finding { prop: "C18".into(), clause: "byproducts-differ".into(), detail: format!("recorded {by}, the command printed {:?} / {:?} and exited with {want_code}", want_out, want_err) });
                    }
                    if f.is_empty() && extra["name"].as_str() != Some(rp.name.as_str()) {
                        f.push(Finding { prop: "C18".into(), clause: "name-differs".into(), detail: format!("{}", extra["name"]) });
                    }
                }
            }
        }
    }
    f
}

/// `calculate_hashes` through a simulated stream.
fn run_stream(t: &RecorderTrace) -> (Vec<Finding>, String, (usize, usize, usize)) {
    let (size, chunked, eintr, fail_at) = t.stream.clone().unwrap();
    let data = file_content(size, t.io_seed);
    let d2 = data.clone();
    let seed = t.io_seed;
    let r = exec::in_fresh_thread(seed, move || {
        let mut rd = SimReader::new(&d2, seed, chunked, eintr, fail_at);
        let r = in_toto::crypto::calculate_hashes(&mut rd, &[in_toto::crypto::HashAlgorithm::Sha256, in_toto::crypto::HashAlgorithm::Sha512]);
        let st = (rd.stats.short, rd.stats.eintr, rd.stats.eio);
        (
            r.map(|(n, h)| {
                let v = serde_json::to_value(&h).unwrap_or(Value::Null);
                (n, v["sha256"].as_str().unwrap_or("").to_string(), v["sha512"].as_str().unwrap_or("").to_string())
            })
            .map_err(|e| e.to_string()),
            st,
        )
    });
    let mut f = vec![];
    match r {
        Err(p) => {
            f.push(Finding { prop: "C14".into(), clause: "panic-in-digest".into(), detail: p });
            (f, "panic".into(), (0, 0, 0))
        }
        Ok((Ok((n, s256, s512)), st)) => {
            if n != data.len() as u64 || s256 != gen::sha256_hex(&data) || s512 != gen::sha512_hex(&data) {
                f.push(Finding { prop: "C18".into(), clause: "stream-wrong-digest".into(), detail: format!("{size} bytes delivered in chunks: size {n}, sha256 {s256}") });
            }
            (f, "ok".into(), st)
        }
        Ok((Err(e), st)) => {
            if eintr == 0 && fail_at.is_none() {
                f.push(Finding { prop: "C18".into(), clause: "stream-fault-free-rejected".into(), detail: e });
            }
            (f, "err".into(), st)
        }
    }
}

fn fold(t: &RecorderTrace, o: Option<&RecOutcome>, findings: Vec<Finding>, stream: Option<(String, (usize, usize, usize))>, rec: &mut RunRecord, seed: u64, index: u64, prop: &str) -> Vec<Finding> {
    rec.evaluations += 1;
    let mut d = Digest::new();
    d.update(&rec.log_digest.to_le_bytes());
    let mut sh = Digest::new();
    sh.str(&format!("{:?}", t.labels));
    if let Some(o) = o {
        let cls = if o.panic.is_some() { "panic" } else if o.result.is_ok() { "ok" } else { "err" };
        d.str(cls);
        d.str(&o.err_class);
        if let Ok((m, p, x)) = &o.result {
            d.str(&crate::exec::mask_scratch(&format!("{:?}{:?}{}", m, p, x)));
        }
        sh.str(cls);
        sh.str(&format!(
            "{}|{}|{}|{}|{}|{:?}|{:?}|{}",
            o.materials_expect.entries.len().min(12),
            o.materials_expect.cyclic.len(),
            o.materials_expect.dangling.len(),
            o.materials_expect.same_file_twice,
            o.materials_expect.entries.values().any(|v| v.len() > 1),
            t.algs,
            t.lstrip.as_ref().map(|l| l.len()),
            t.run.is_some()
        ));
        rec.verdicts[match cls {
            "ok" => 0,
            "err" => 1,
            _ => 2,
        }] += 1;
        if o.read_stats.1 > 0 {
            rec.fired.push("R-SHORT".into());
        }
        if o.read_stats.2 > 0 {
            rec.fired.push("R-EINTR".into());
        }
        if o.read_stats.3 > 0 {
            rec.fired.push("R-EIO".into());
        }
        if !o.materials_expect.cyclic.is_empty() {
            rec.probe("link cycle in the recorded tree");
        }
        if o.singles.iter().any(|x| x.1.is_ok()) {
            rec.probe("record_artifact on a single file of the tree");
        }
        if !o.materials_expect.dangling.is_empty() {
            rec.probe("dangling link in the recorded tree");
        }
        if o.materials_expect.entries.values().any(|v| v.len() > 1) {
            rec.probe("two different files receive one key");
        }
        if o.materials_expect.same_file_twice {
            rec.probe("one file reached twice (overlapping arguments)");
        }
    }
    if let Some((cls, st)) = &stream {
        d.str(cls);
        sh.str(cls);
        sh.str(&format!("{:?}", t.stream.as_ref().map(|s| (s.0, s.1, s.2 > 0, s.3.is_some()))));
        if st.0 > 0 {
            rec.fired.push("CHUNK".into());
        }
        if st.1 > 0 {
            rec.fired.push("EINTR".into());
        }
        if st.2 > 0 {
            rec.fired.push("EIO@offset".into());
        }
        rec.verdicts[if cls == "ok" { 0 } else { 1 }] += 1;
    }
    rec.log_digest = d.finish();
    rec.shapes.push((sh.finish(), true));
    rec.schedules.push(t.io_seed);
    for l in &t.labels {
        rec.fired.push(l.clone());
    }
    if rec.sample.is_none() {
        rec.sample = Some(json!({"seed": seed, "labels": t.labels, "tree": t.tree.iter().take(12).collect::<Vec<_>>(), "paths": t.paths, "lstrip": t.lstrip, "algs": t.algs,
            "run": t.run.as_ref().map(|r| json!({"ops": r.actor.ops.len(), "exit": format!("{:?}", r.actor.exit)})), "read_faults": t.read_faults, "stream": t.stream,
            "outcome": o.map(|o| match &o.result { Ok((m, p, _)) => format!("Ok: {} materials, {} products", m.len(), p.len()), Err(e) => format!("Err: {e}") })}));
    }
    let mut own = vec![];
    for x in findings {
        if x.prop == prop {
            if own.is_empty() {
                rec.own.push(Violation { seed, index, site: site_of(&x, &[]), finding: x.clone(), trace: Trace::Recorder(t.clone()) });
            }
            own.push(x);
        } else {
            rec.cross.push(x);
        }
    }
    own
}

fn exec_and_fold(t: &RecorderTrace, scratch: &Scratch, rec: &mut RunRecord, seed: u64, index: u64, prop: &str) -> Vec<Finding> {
    if t.stream.is_some() {
        let (f, cls, st) = run_stream(t);
        return fold(t, None, f, Some((cls, st)), rec, seed, index, prop);
    }
    crate::crash::write_current_trace(&Trace::Recorder(t.clone()));
    let o = run_recorder(t, scratch);
    let f = judge_recorder(t, &o);
    fold(t, Some(&o), f, None, rec, seed, index, prop)
}

// ---------------------------------------------------------------------------------------------
// generation
// ---------------------------------------------------------------------------------------------
const DIRS: &[&str] = &["d", "e", "sub dir", "d/inner", "\u{fc}n\u{ef}", ".hidden", "a/b/c", "empty", "d/d", "e/e/e"];
const NAMES: &[&str] = &["f", "g.txt", "with space", ".dot", "\u{e9}t\u{e9}", "x.y.z", "-dash", "f2"];
const SIZES: &[usize] = &[0, 1, 5, 1023, 1024, 1025, 2048, 8191, 8192, 8193, 100_000];

pub fn gen_trace(seed: u64, tier: Tier) -> RecorderTrace {
    let mut r = Rng::stream(seed, "recorder");
    let mut labels = vec![];
    if r.chance(1, 8) {
        let size = *r.pick(SIZES);
        let eintr = *r.pick(&[0u64, 0, 20]);
        let fail = if r.chance(1, 4) { Some(r.idx(size + 1)) } else { None };
        return RecorderTrace { tree: vec![], paths: vec![], lstrip: None, algs: None, run: None, read_faults: None, io_seed: r.next(), stream: Some((size, r.chance(4, 5), eintr, fail)), labels: vec!["STREAM".into()], prelude: 0 };
    }
    let mut tree = vec![];
    let mut dirs: Vec<String> = vec![];
    for _ in 0..(1 + r.below(4)) {
        let d = r.pick(DIRS).to_string();
        if !dirs.contains(&d) {
            dirs.push(d.clone());
            tree.push(TreeOp::Dir(d));
        }
    }
    let mut files: Vec<String> = vec![];
    for _ in 0..(1 + r.below(6)) {
        let d = if r.chance(1, 4) { String::new() } else { format!("{}/", r.pick(&dirs)) };
        let p = format!("{}{}", d, r.pick(NAMES));
        if !files.contains(&p) && !dirs.contains(&p) {
            files.push(p.clone());
            tree.push(TreeOp::File { path: p, size: *r.pick(SIZES), seed: r.next() });
        }
    }
    // symbolic links
    let n_links = r.weighted(&[35, 35, 20, 10]);
    let mut links: Vec<String> = vec![];
    for li in 0..n_links {
        let d = if r.chance(1, 3) { String::new() } else { format!("{}/", r.pick(&dirs)) };
        let lp = format!("{}l{}", d, li);
        let depth = lp.matches('/').count();
        let up = "../".repeat(depth);
        let kind = r.below(8);
        let absolute = r.chance(1, 2);
        let (target, label): (String, &str) = match kind {
            // the same target as the previous link now and then: two names for one file or directory
            0 if li > 0 && !files.is_empty() => (files[0].clone(), "LINK-FILE"),
            0 | 1 => (r.pick(&files).clone(), "LINK-FILE"),
            2 | 3 => (r.pick(&dirs).clone(), "LINK-DIR"),
            4 if !links.is_empty() => (r.pick(&links).clone(), "LINK-CHAIN"),
            5 => ("nowhere".to_string(), "LINK-DANGLING"),
            6 => {
                // to an ancestor directory: a cycle
                let anc = if depth == 0 { ".".to_string() } else { lp.rsplitn(2, '/').nth(1).unwrap_or(".").split('/').next().unwrap_or(".").to_string() };
                (anc, "LINK-CYCLE")
            }
            _ => (r.pick(&files).clone(), "LINK-FILE"),
        };
        let t = if absolute { target.clone() } else if target == "." { if depth == 0 { ".".into() } else { up.trim_end_matches('/').to_string() } } else { format!("{}{}", up, target) };
        labels.push(format!("{}-{}", label, if absolute { "ABS" } else { "REL" }));
        tree.push(TreeOp::Link { path: lp.clone(), target: t, absolute });
        links.push(lp);
    }
    // part of the tree lives on another file system
    if r.chance(1, 20) {
        let d = r.pick(&dirs).clone();
        tree.push(TreeOp::XdevDir { path: format!("{}/vendor", d), seed: r.next() });
        labels.push("XDEV-DIR".into());
    }
    // a named pipe in the tree, and a link to it: neither is a regular file, both must be left alone
    if r.chance(1, 25) {
        let d = r.pick(&dirs).clone();
        tree.push(TreeOp::Fifo(format!("{}/pipe", d)));
        if r.chance(1, 2) {
            tree.push(TreeOp::Link { path: format!("{}/to-pipe", d), target: "pipe".into(), absolute: false });
        }
        labels.push("FIFO-IN-TREE".into());
    }
    // links to things that are no regular files: a device node (the `ln -s /dev/null name` idiom), a socket
    if r.chance(1, 15) {
        let d = r.pick(&dirs).clone();
        if r.chance(1, 2) {
            tree.push(TreeOp::Link { path: format!("{}/masked", d), target: "/dev/null".into(), absolute: false });
            if r.chance(1, 2) {
                tree.push(TreeOp::Link { path: format!("{}/masked2", d), target: "masked".into(), absolute: false });
            }
            labels.push("LINK-TO-DEVICE".into());
        } else {
            tree.push(TreeOp::Socket(format!("{}/sock", d)));
            tree.push(TreeOp::Link { path: format!("{}/to-sock", d), target: "sock".into(), absolute: false });
            labels.push("SOCKET-IN-TREE".into());
        }
    }
    // a link to a regular file that does not report its size (procfs: st_size 0, the bytes are there all the
    // same): "the standard digest of the file's bytes", whatever stat says (own stream: other draws stay)
    {
        let mut pr = Rng::stream(seed, "procfs-link");
        if pr.chance(1, 12) && std::fs::metadata("/proc/version").map(|m| m.is_file() && m.len() == 0).unwrap_or(false) {
            let d = pr.pick(&dirs).clone();
            tree.push(TreeOp::Link { path: format!("{}/kernel-version", d), target: "/proc/version".into(), absolute: false });
            labels.push("LINK-TO-SIZELESS-FILE".into());
        }
    }
    // path arguments
    let mut paths: Vec<String> = match r.weighted(&[30, 25, 15, 10, 10, 10, if links.is_empty() { 0 } else { 12 }]) {
        6 => {
            // a link named as an argument of its own, and then the directory it lies in
            labels.push("ARGS-LINK-THEN-DIR".into());
            let l = r.pick(&links).clone();
            let parent = match l.rfind('/') {
                Some(i) => l[..i].to_string(),
                None => ".".to_string(),
            };
            vec![l, parent]
        }
        0 => vec![".".into()],
        1 => vec![r.pick(&dirs).clone()],
        2 => {
            let mut v: Vec<String> = dirs.iter().take(2).cloned().collect();
            if r.chance(1, 2) {
                v.push(r.pick(&files).clone());
            }
            v
        }
        3 => {
            labels.push("ARGS-NONNORMAL".into());
            let d = r.pick(&dirs).clone();
            vec![format!("./{}/../{}", d, d)]
        }
        4 => {
            labels.push("ARGS-OVERLAP".into());
            let d = r.pick(&dirs).clone();
            vec![".".into(), d]
        }
        _ => {
            labels.push("ARGS-ABSOLUTE".into());
            vec![format!("@WS/{}", r.pick(&dirs))]
        }
    };
    paths.dedup();
    let lstrip = match r.weighted(&[45, 20, 15, 10, 10]) {
        0 => None,
        1 => Some(vec![format!("{}/", r.pick(&dirs))]),
        2 => {
            let d = r.pick(&dirs).clone();
            Some(vec![format!("{}/", d), d.chars().take(1).collect::<String>(), format!("{}/{}", d, "inner/")])
        }
        3 => {
            labels.push("LSTRIP-COLLIDING".into());
            // stripping two directories' prefixes can make two different files collide
            Some(dirs.iter().map(|d| format!("{}/", d)).collect())
        }
        _ => Some(vec!["@WS/".into(), "zzz/".into()]),
    };
    let algs = match r.weighted(&[45, 15, 15, 15, 10]) {
        0 => None,
        1 => Some(vec!["sha256".to_string()]),
        2 => Some(vec!["sha512".to_string()]),
        3 => Some(vec!["sha256".to_string(), "sha512".to_string()]),
        _ => {
            labels.push("ALG-UNKNOWN".into());
            Some(vec!["md5".to_string()])
        }
    };
    let run = if r.chance(if tier == Tier::Quick { 15 } else { 20 }, 100) {
        let mut ops = vec![];
        for _ in 0..r.below(4) {
            match r.below(4) {
                0 => ops.push(FsOp::Write { path: format!("{}/created-{}", r.pick(&dirs), r.below(3)), content: gen::text(&mut r) }),
                1 => ops.push(FsOp::Append { path: r.pick(&files).clone(), content: "appended".into() }),
                2 if r.chance(1, 2) => ops.push(FsOp::TamperKeepStat { path: r.pick(&files).clone() }),
                2 => ops.push(FsOp::Remove { path: r.pick(&files).clone() }),
                _ => ops.push(FsOp::Mkdir { path: format!("{}/newdir", r.pick(&dirs)) }),
            }
        }
        let pool: [&[u8]; 6] = [b"", b"out\n", b"line1\nline2", b"tab\there", b"\xc3\xa9", b"\\n"];
        let exit = match r.weighted(&[60, 25, 8, 7]) {
            0 => ExitSpec::Code(0),
            1 => ExitSpec::Code(*r.pick(&[1, 2, 127, 255])),
            2 => ExitSpec::Signal(9),
            _ => ExitSpec::NotFound,
        };
        labels.push("RUN".into());
        // now and then far more output than a pipe buffer holds, on both streams
        let big = r.chance(1, 12);
        let (so, se) = if big {
            labels.push("BIG-OUTPUT".into());
            // (half of the time text with multi-byte characters at every alignment: whatever size the reads
            // of the pipe have, some of them end inside a character)
            if r.chance(1, 2) {
                let unit = ["a\u{e9}", "\u{4e16}\u{754c}x", "\u{1f600}", "ab\u{fc}\u{20ac}"][r.idx(4)];
                let shift = "z".repeat(r.idx(4));
                let mk = |n: usize| -> Vec<u8> {
                    let mut v = shift.clone();
                    while v.len() < n {
                        v.push_str(unit);
                    }
                    v.into_bytes()
                };
                (mk(14_000 + r.idx(200_000)), mk(9_000 + r.idx(150_000)))
            } else {
                (vec![b'o'; 200_000 + r.idx(1000)], vec![b'e'; 150_000 + r.idx(1000)])
            }
        } else {
            (r.pick(&pool[..]).to_vec(), r.pick(&pool[..]).to_vec())
        };
        Some(RunPart {
            name: gen::simple_name(&mut r),
            actor: ActorScript { id: "step".into(), ops, stdout: so, stderr: se, exit },
            use_run_dir: r.chance(1, 2),
        })
    } else {
        None
    };
    let read_faults = if r.chance(if tier == Tier::Quick { 15 } else { 30 }, 100) {
        labels.push("READ-FAULTS".into());
        Some(match r.below(3) {
            0 => (400, 0, 0),
            1 => (200, 100, 0),
            _ => (200, 50, 30),
        })
    } else {
        None
    };
    let prelude = {
        let mut pr = Rng::stream(seed, "recorder-prelude");
        if pr.chance(1, 5) {
            1 + pr.below(3) as u8
        } else {
            0
        }
    };
    if prelude != 0 {
        labels.push(format!("PRELUDE-{}", ["", "FAILS", "SAME-NAMES", "RUN-FAILS"][prelude as usize]));
    }
    RecorderTrace { tree, paths, lstrip, algs, run, read_faults, io_seed: r.next(), stream: None, labels, prelude }
}

pub fn run_c18(tier: Tier, seed: u64, index: u64, scratch: &Scratch, rec: &mut RunRecord) {
    let t = gen_trace(seed, tier);
    exec_and_fold(&t, scratch, rec, seed, index, "C18");
}

pub fn replay(prop: &str, t: &RecorderTrace, scratch: &Scratch, rec: &mut RunRecord) -> Vec<Finding> {
    exec_and_fold(t, scratch, rec, 0, 0, prop)
}

pub fn minimise(prop: &str, clause: &str, t: &RecorderTrace, scratch: &Scratch) -> (RecorderTrace, bool) {
    let still = |c: &RecorderTrace| {
        let mut rec = RunRecord::default();
        exec_and_fold(c, scratch, &mut rec, 0, 0, prop).iter().any(|f| f.clause == clause)
    };
    let mut cur = t.clone();
    let mut changed = false;
    for _ in 0..300 {
        let mut cands = vec![];
        for i in 0..cur.tree.len() {
            let mut c = cur.clone();
            c.tree.remove(i);
            cands.push(c);
        }
        for i in 0..cur.tree.len() {
            if let TreeOp::File { path, size, seed } = &cur.tree[i] {
                if *size > 1 {
                    let mut c = cur.clone();
                    c.tree[i] = TreeOp::File { path: path.clone(), size: 1, seed: *seed };
                    cands.push(c);
                }
            }
        }
        if cur.prelude != 0 {
            let mut c = cur.clone();
            c.prelude = 0;
            cands.push(c);
        }
        if cur.paths.len() > 1 {
            for i in 0..cur.paths.len() {
                let mut c = cur.clone();
                c.paths.remove(i);
                cands.push(c);
            }
        }
        if cur.lstrip.is_some() {
            let mut c = cur.clone();
            c.lstrip = None;
            cands.push(c);
        }
        if cur.algs.is_some() {
            let mut c = cur.clone();
            c.algs = None;
            cands.push(c);
        }
        if cur.read_faults.is_some() {
            let mut c = cur.clone();
            c.read_faults = None;
            cands.push(c);
        }
        if let Some(rp) = &cur.run {
            let mut c = cur.clone();
            c.run = None;
            cands.push(c);
            for i in 0..rp.actor.ops.len() {
                let mut c = cur.clone();
                c.run.as_mut().unwrap().actor.ops.remove(i);
                cands.push(c);
            }
        }
        let mut progress = false;
        for c in cands {
            if c != cur && still(&c) {
                cur = c;
                changed = true;
                progress = true;
                break;
            }
        }
        if !progress {
            break;
        }
    }
    (cur, changed)
}

pub fn _unused(_: &PathBuf, _: &BTreeSet<u8>) {}
