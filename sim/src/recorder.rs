//! stub
use crate::checks::{RunRecord, Tier};
use crate::exec::Scratch;
use crate::oracle::Finding;
use serde::{Deserialize, Serialize};

#[derive(Clone, Debug, Serialize, Deserialize, PartialEq)]
pub struct RecorderTrace {}
pub fn run_c18(_t: Tier, _s: u64, _i: u64, _sc: &Scratch, _r: &mut RunRecord) {}
pub fn replay(_p: &str, _t: &RecorderTrace, _sc: &Scratch, _r: &mut RunRecord) -> Vec<Finding> { vec![] }
pub fn minimise(_p: &str, _c: &str, t: &RecorderTrace, _sc: &Scratch) -> (RecorderTrace, bool) { (t.clone(), false) }
