//! SplitMix64 with labelled sub-streams. One integer (the run seed) decides everything:
//! every component draws from `Rng::stream(seed, "<label>")`, so adding a draw in one
//! component never shifts another component's choices.

#[derive(Clone, Debug)]
pub struct Rng(u64);

fn mix(mut z: u64) -> u64 {
    z = (z ^ (z >> 30)).wrapping_mul(0xbf58476d1ce4e5b9);
    z = (z ^ (z >> 27)).wrapping_mul(0x94d049bb133111eb);
    z ^ (z >> 31)
}

pub fn fnv(label: &str) -> u64 {
    let mut h: u64 = 0xcbf29ce484222325;
    for b in label.as_bytes() {
        h ^= *b as u64;
        h = h.wrapping_mul(0x100000001b3);
    }
    h
}

impl Rng {
    pub fn new(seed: u64) -> Self {
        Rng(seed)
    }
    /// Independent stream for `label` under run seed `seed`.
    pub fn stream(seed: u64, label: &str) -> Self {
        Rng(mix(seed ^ mix(fnv(label))))
    }
    pub fn next(&mut self) -> u64 {
        self.0 = self.0.wrapping_add(0x9e3779b97f4a7c15);
        mix(self.0)
    }
    /// uniform in 0..n (n > 0)
    pub fn below(&mut self, n: u64) -> u64 {
        if n == 0 {
            return 0;
        }
        self.next() % n
    }
    pub fn range(&mut self, lo: i64, hi_incl: i64) -> i64 {
        lo + self.below((hi_incl - lo + 1) as u64) as i64
    }
    pub fn chance(&mut self, num: u64, den: u64) -> bool {
        self.below(den) < num
    }
    pub fn pick<'a, T>(&mut self, xs: &'a [T]) -> &'a T {
        &xs[self.below(xs.len() as u64) as usize]
    }
    pub fn idx(&mut self, len: usize) -> usize {
        self.below(len as u64) as usize
    }
    pub fn shuffle<T>(&mut self, xs: &mut [T]) {
        for i in (1..xs.len()).rev() {
            let j = self.below(i as u64 + 1) as usize;
            xs.swap(i, j);
        }
    }
    pub fn bytes(&mut self, n: usize) -> Vec<u8> {
        let mut v = Vec::with_capacity(n);
        while v.len() < n {
            let x = self.next().to_le_bytes();
            for b in x {
                if v.len() < n {
                    v.push(b);
                }
            }
        }
        v
    }
    /// weighted choice: returns index
    pub fn weighted(&mut self, w: &[u64]) -> usize {
        let tot: u64 = w.iter().sum();
        let mut x = self.below(tot.max(1));
        for (i, wi) in w.iter().enumerate() {
            if x < *wi {
                return i;
            }
            x -= *wi;
        }
        w.len() - 1
    }
}

/// 64-bit FNV-style digest used for event-log digests and state-shape digests
/// (not security relevant; only for counting distinct things and comparing logs).
#[derive(Clone)]
pub struct Digest(u64, u64);
impl Digest {
    pub fn new() -> Self {
        Digest(0xcbf29ce484222325, 0x84222325cbf29ce4)
    }
    pub fn update(&mut self, b: &[u8]) {
        for x in b {
            self.0 ^= *x as u64;
            self.0 = self.0.wrapping_mul(0x100000001b3);
            self.1 = (self.1 ^ (*x as u64)).wrapping_mul(0x9e3779b97f4a7c15).rotate_left(23);
        }
        self.0 ^= 0xff;
        self.0 = self.0.wrapping_mul(0x100000001b3);
    }
    pub fn str(&mut self, s: &str) {
        self.update(s.as_bytes())
    }
    pub fn finish(&self) -> u64 {
        mix(self.0 ^ mix(self.1))
    }
    pub fn hex(&self) -> String {
        format!("{:016x}", self.finish())
    }
}
