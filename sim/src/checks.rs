//! Per-property drivers: what one seed does for each check.

use crate::exec::Scratch;
use crate::gen::{self, GenOpts, F};
use crate::oracle::{self, Finding};
use crate::prng::{Digest, Rng};
use crate::supply::{run_supply, SupplyTrace};
use serde::{Deserialize, Serialize};
use serde_json::{json, Value};

#[derive(Clone, Copy, Debug, PartialEq, Eq, Serialize, Deserialize)]
pub enum Tier {
    #[serde(rename = "quick")]
    Quick,
    #[serde(rename = "thorough")]
    Thorough,
}

impl Tier {
    pub fn name(self) -> &'static str {
        match self {
            Tier::Quick => "quick",
            Tier::Thorough => "thorough",
        }
    }
}

/// A trace of any scenario (the replay file's payload).
#[derive(Clone, Debug, Serialize, Deserialize, PartialEq)]
pub enum Trace {
    Supply(SupplyTrace),
    Ceremony(crate::ceremony::CeremonyTrace),
    Channel(crate::channel::ChannelTrace),
    Recorder(crate::recorder::RecorderTrace),
    Rules(crate::rules::RulesTrace),
    Bytes(crate::crash::BytesTrace),
    /// the whole supply chain really carried out (in_toto_run per step, artifact transport, verification)
    Pipeline(crate::pipeline::PipelineTrace),
    /// a history: the earlier traces are executed first, in the same process, and only the last one is
    /// judged (defects that need state carried over from an earlier call)
    Seq(Vec<Trace>),
    /// run indices of one check executed in this order in one process: the last one's event log must be
    /// what the same index gives when it is the only thing a fresh process executes
    SeedSeq { check: String, tier: Tier, base: u64, indices: Vec<u64> },
}

#[derive(Clone, Debug, Serialize, Deserialize)]
pub struct Violation {
    pub seed: u64,
    pub index: u64,
    pub finding: Finding,
    pub trace: Trace,
    /// a stable identity of the failing site (clause + minimal fault kinds / panic location)
    pub site: String,
}

#[derive(Default, Debug)]
pub struct RunRecord {
    pub evaluations: u64,
    pub vacuous: u64,
    pub vacuous_why: Vec<String>,
    pub own: Vec<Violation>,
    pub cross: Vec<Finding>,
    pub shapes: Vec<(u64, bool)>,
    pub schedules: Vec<u64>,
    pub fired: Vec<String>,
    pub probes: Vec<String>,
    pub sample: Option<Value>,
    pub sim_seconds: f64,
    pub log_digest: u64,
    pub verdicts: [u64; 3],
}

impl RunRecord {
    pub fn probe(&mut self, p: &str) {
        self.probes.push(p.to_string());
    }
}

pub fn runs_for(check: &str, tier: Tier) -> u64 {
    // thorough = the quick tier's worlds and some eight to ten times as many more (the same generators with
    // larger worlds, all key types, read(2) faults, more repetitions per world): budgets that have been run to
    // completion on the unchanged tree (DESIGN 10.7), a few minutes each on 16 cores
    let q = tier == Tier::Quick;
    match check {
        "C01" | "C02" | "C07" => if q { 36_000 } else { 360_000 },
        "C15" => if q { 24_000 } else { 240_000 },
        "C13" => if q { 12_000 } else { 100_000 },
        "C06" => if q { 160 } else { 1_200 },
        "C08" => if q { 192 + C08_PIPELINES_QUICK } else { 600 + C08_PIPELINES_THOROUGH },
        "C03" => if q { 100_000 } else { 1_200_000 },
        "C04" => if q { 80_000 } else { 600_000 },
        "C09" => if q { 8_000 } else { 64_000 },
        "C05" => if q { 1_000 } else { 8_000 },
        "C14" => if q { 100_000 } else { 800_000 },
        "C17" => if q { 60_000 } else { 600_000 },
        "C18" => if q { 160_000 } else { 1_500_000 },
        _ => 0,
    }
}

/// C08: run indices beyond the grid worlds are pipeline runs with an inspection over the delivered product
pub const C08_PIPELINES_QUICK: u64 = 1_024;
pub const C08_PIPELINES_THOROUGH: u64 = 4_000;

pub fn level_of(check: &str) -> &'static str {
    match check {
        "C05" | "C06" | "C08" => "fault_enumeration",
        _ => "exploration",
    }
}

fn shape_digest(s: &str) -> u64 {
    let mut d = Digest::new();
    d.str(s);
    d.finish()
}

fn schedule_digest(t: &SupplyTrace) -> u64 {
    let mut d = Digest::new();
    for h in &t.hash_seeds {
        d.update(&h.to_le_bytes());
    }
    for a in &t.arrivals {
        d.update(&a.to_le_bytes());
    }
    for (s, n) in &t.clock {
        d.update(&s.to_le_bytes());
        d.update(&n.to_le_bytes());
    }
    d.finish()
}

pub fn site_of(f: &Finding, labels: &[String]) -> String {
    if f.prop == "C14" {
        // panic location
        let loc = f.detail.split(" at ").nth(1).unwrap_or(&f.detail);
        format!("{}@{}", f.clause, loc.split_whitespace().next().unwrap_or(""))
    } else {
        let mut l = labels.to_vec();
        l.sort();
        l.dedup();
        format!("{}[{}]", f.clause, l.join("+"))
    }
}

/// Execute a supply trace and fold the result into the record. Returns own findings.
thread_local! {
    /// the last few supply traces this worker executed (most recent last): the history of the next one
    static RECENT: std::cell::RefCell<Vec<SupplyTrace>> = std::cell::RefCell::new(Vec::new());
}
const HISTORY_LEN: usize = 3;

pub fn exec_supply(check: &str, t: &SupplyTrace, scratch: &Scratch, rec: &mut RunRecord, seed: u64, index: u64) -> Vec<Finding> {
    let before_own = rec.own.len();
    let r = exec_supply_inner(check, t, scratch, rec, seed, index);
    // whatever this process executed just before may matter (process-wide state inside the library):
    // it is kept as the violation's history and dropped again by the minimiser if a fresh process
    // reproduces the violation without it
    RECENT.with(|h| {
        let mut h = h.borrow_mut();
        if rec.own.len() > before_own && !h.is_empty() {
            for v in rec.own.iter_mut().skip(before_own) {
                let mut seq: Vec<Trace> = h.iter().cloned().map(Trace::Supply).collect();
                seq.push(v.trace.clone());
                v.trace = Trace::Seq(seq);
            }
        }
        h.push(t.clone());
        if h.len() > HISTORY_LEN {
            h.remove(0);
        }
    });
    r
}

/// For replays: forget what this process executed before.
pub fn clear_history() {
    RECENT.with(|h| h.borrow_mut().clear());
    crate::exec::reset_same_thread();
}

fn exec_supply_inner(check: &str, t: &SupplyTrace, scratch: &Scratch, rec: &mut RunRecord, seed: u64, index: u64) -> Vec<Finding> {
    crate::crash::write_current_supply(t);
    let o = run_supply(t, scratch);
    let j = oracle::judge_supply(t, &o);
    rec.evaluations += 1;
    // simulated time covered by this world: from the earliest to the latest instant on its timeline
    // (every clock value the verifier is given, the root layout's expiry)
    {
        let mut instants: Vec<i64> = t.clock.iter().map(|c| c.0).collect();
        if let Some((e, _)) = crate::refmodel::rfc3339_instant(&t.root.layout.expires) {
            instants.push(e);
        }
        if let (Some(a), Some(b)) = (instants.iter().min(), instants.iter().max()) {
            rec.sim_seconds += (b - a) as f64;
        }
    }
    let nontrivial = !o.truth.fired.is_empty() || !t.labels.is_empty();
    rec.shapes.push((shape_digest(&j.shape), nontrivial && o.no_layout.is_none()));
    rec.schedules.push(schedule_digest(t));
    for l in &t.labels {
        rec.fired.push(l.clone());
    }
    for l in &o.truth.fired {
        rec.fired.push(l.clone());
    }
    for v in &o.verdicts {
        match v.verdict_class() {
            "ok" => rec.verdicts[0] += 1,
            "err" => rec.verdicts[1] += 1,
            _ => rec.verdicts[2] += 1,
        }
    }
    if o.no_layout.is_some() {
        rec.probe("root layout unparseable after faults");
    }
    if let Some(ev) = &j.root_eval {
        if ev.rules_judged {
            rec.probe("artifact rules judged by reference model");
        }
        for s in &ev.steps {
            let ks: std::collections::BTreeSet<&String> = s.cands.iter().map(|c| &c.key).collect();
            if ks.len() as u64 > s.threshold.max(1) {
                rec.probe("more counting signers than the threshold needs");
            }
            if s.cands.iter().any(|c| c.sub_eval.is_some()) {
                rec.probe("delegated evidence counted");
            }
            if s.cands.iter().any(|c| c.sub_eval.as_ref().map(|e| e.steps.iter().any(|x| x.cands.iter().any(|y| y.sub_eval.is_some()))).unwrap_or(false)) {
                rec.probe("delegation depth 2");
            }
            if s.cands.iter().any(|c| !c.strict) {
                rec.probe("valid signer differs from the file-name prefix");
            }
        }
    }
    if t.caller.len() > 1 {
        rec.probe("several owner keys");
    }
    if t.same_thread {
        rec.probe("verified on the worker's long-lived thread (thread-local state carries over)");
    }
    if t.in_place {
        rec.probe("link directory updated in place (same inodes)");
    }
    if t.via_symlink.is_some() {
        rec.probe("link files delivered as symbolic links into a content store");
    }
    if !t.mem_sigdup.is_empty() {
        rec.probe("signature entry repeated in the caller's memory");
    }
    if t.read_eio.is_some() {
        rec.probe("hard read errors armed while verifying");
    }
    if t.root.layout.steps.iter().any(|s| s.name.contains('.')) {
        rec.probe("step name with a dot");
    }
    if t.keys.iter().any(|k| !k.kind.is_ed()) {
        rec.probe("non-ed25519 key in world");
    }
    // log digest: verdict strings + abstract facts (never signature bytes)
    let mut d = Digest::new();
    d.update(&rec.log_digest.to_le_bytes());
    for v in &o.verdicts {
        // digit runs are masked: positions inside a document depend on the length of ECDSA / RSA-PSS
        // signatures, whose bytes ring's entropy decides (DESIGN §2.2)
        let masked: String = crate::exec::mask_scratch(&v.short()).chars().map(|c| if c.is_ascii_digit() { '#' } else { c }).collect();
        // on the long-lived verifier thread the order in which maps iterate depends on how many maps the
        // thread has made before, and with it WHICH of several errors a failing verification reports: only
        // the verdict class is part of the log there
        d.str(if t.same_thread { v.verdict_class() } else { &masked });
        // (likewise how many sub-layouts, and so how many clock reads, come before the failing one)
        d.update(&(if t.same_thread && !v.ok { 0 } else { v.clock_reads as u64 }).to_le_bytes());
        // (how often the hash seam was drawn from is a witness of the seam, not of the library: a library
        // that hashes files on helper threads draws once per helper that happens to build a map)
        let _ = v.hash_draws;
        if let Some(s) = &v.summary {
            d.str(&s.to_string());
        }
    }
    // (whether an armed read fault came to FIRE depends, on the long-lived thread, on how far a failing
    // verification got before it failed)
    if t.same_thread {
        let mut sh = j.shape.clone();
        for l in ["R-EIO", "R-SHORT", "R-EINTR"] {
            sh = sh.replace(&format!(", \"{l}\""), "").replace(&format!("\"{l}\", "), "").replace(&format!("\"{l}\""), "");
        }
        d.str(&sh);
    } else {
        d.str(&j.shape);
    }
    // (and which delegated levels, with their inspections, were gone through before a failing level)
    let order_free = !(t.same_thread && o.verdicts.iter().any(|v| !v.ok));
    for e in &o.events {
        // (on the long-lived thread the ORDER in which delegated levels, and so their inspections, are gone
        // through depends on the thread's history even when all of them pass: the events count as a set there)
        // (what link files a command saw when it started depends on which inspections ran before it — on the
        // order, that is: an observation for the oracle, not part of the log)
        let mut e: Vec<&String> = e.iter().filter(|l| !l.starts_with("saw ")).collect();
        if t.same_thread {
            e.sort();
        }
        for l in e {
            if order_free {
                d.str(l);
            }
        }
    }
    for w in &o.work_after {
        for l in w {
            if order_free {
                d.str(l);
            }
        }
    }
    rec.log_digest = d.finish();
    if rec.sample.is_none() {
        rec.sample = Some(json!({
            "seed": seed,
            "labels": t.labels,
            "fired": o.truth.fired,
            "steps": t.root.layout.steps.iter().map(|s| json!({"name": s.name, "threshold": s.threshold, "authorized": s.pubkeys.len()})).collect::<Vec<_>>(),
            "files": crate::world::stored_paths(&t.root, &t.keys),
            "caller_keys": t.caller.len(),
            "clock": t.clock,
            "verdicts": o.verdicts.iter().map(|v| v.short()).collect::<Vec<_>>(),
            "necessary_conditions_failed": j.root_eval.as_ref().map(|e| e.fails.iter().map(|f| format!("{}:{}", f.prop, f.clause)).collect::<Vec<_>>()),
        }));
    }
    if std::env::var("SCSIM_DEBUG").is_ok() {
        eprintln!("DEBUG digest parts: same_thread {} in_place {} via_symlink {:?} reads {:?} draws {:?} shape {}", t.same_thread, t.in_place, t.via_symlink, o.verdicts.iter().map(|v| v.clock_reads).collect::<Vec<_>>(), o.verdicts.iter().map(|v| v.hash_draws).collect::<Vec<_>>(), j.shape);
        eprintln!("DEBUG {:?} -> {:?} events {:?} work {:?}", t.labels, o.verdicts.iter().map(|v| v.short()).collect::<Vec<_>>(), o.events, o.work_after);
    }
    let mut own = vec![];
    for f in j.findings {
        if f.prop == check {
            if own.is_empty() {
                rec.own.push(Violation {
                    seed,
                    index,
                    site: site_of(&f, &t.labels),
                    finding: f.clone(),
                    trace: Trace::Supply(t.clone()),
                });
            }
            own.push(f);
        } else {
            rec.cross.push(f);
        }
    }
    own
}

fn faults_for(check: &str) -> (&'static [F], &'static [F]) {
    // (primary, secondary)
    const ALL_COUNT: &[F] = &[
        F::Drop, F::Outsider, F::WrongStep, F::OwnerAsFunc, F::SigSwap, F::SigFlip, F::LinkEdit, F::Relabel, F::Misfile, F::Unmet, F::Unlisted, F::Misattributed, F::ExtraStranger, F::UnknownSchemeFunc, F::DupStep,
    ];
    const LAYOUT: &[F] = &[
        F::LNoSig, F::LForged, F::LCorrupt, F::LEdit, F::LEdit, F::LSigDup, F::CallerEmpty, F::CallerSuperset, F::CallerDisjoint, F::CallerAlias, F::CallerJsonAlias, F::UnknownSchemeOwner,
    ];
    const BYTES: &[F] = &[F::ByteFlip, F::ByteTrunc, F::ByteOverwrite, F::DupFile, F::SigDup, F::SigShuf];
    const DELEG: &[F] = &[F::SubWrongSigner, F::SubExpired, F::SubInner, F::SubInner, F::WrongDir, F::ATamper, F::SharedSub, F::WrongStep, F::ExtraStranger, F::SubInspectionFails, F::DecoyDir, F::DecoyDir];
    const C07SEC: &[F] = &[F::ByteFlip, F::DupFile, F::SigDup, F::SigShuf, F::ExtraStranger, F::ExtraStranger];
    const DISSENT: &[F] = &[F::Dissent, F::Dissent, F::Dissent, F::SharedSub];
    const C14F: &[F] = &[F::ByteFlip, F::ByteTrunc, F::ByteOverwrite, F::Garbage, F::IsDir, F::Dangling, F::DupFile, F::OddFileName, F::LEdit, F::LinkEdit];
    match check {
        "C01" => (LAYOUT, BYTES),
        "C02" => (ALL_COUNT, BYTES),
        "C07" => (DISSENT, C07SEC),
        "C15" => (DELEG, ALL_COUNT),
        "C14" => (C14F, ALL_COUNT),
        _ => (ALL_COUNT, BYTES),
    }
}

fn opts_for(check: &str, tier: Tier, r: &mut Rng) -> GenOpts {
    let mut o = GenOpts::default();
    if tier == Tier::Quick {
        o.ed_only_pct = 85;
    } else {
        o.ed_only_pct = 65;
    }
    match check {
        "C15" => {
            o.delegation_pct = 55;
            o.max_depth = if r.chance(1, 3) { 2 } else { 1 };
            o.max_steps = 3;
            // real inspection processes in some of the worlds (they cost milliseconds each)
            o.inspections = r.chance(1, 8);
        }
        "C13" => {
            o.delegation_pct = 8;
        }
        "C07" => {
            o.delegation_pct = 20;
        }
        _ => {}
    }
    o
}

/// One seed of a supply-chain check: accepting baseline, 1–3 faults, judge.
pub fn run_supply_check(check: &str, tier: Tier, seed: u64, index: u64, scratch: &Scratch, rec: &mut RunRecord) {
    let mut fr = Rng::stream(seed, "faults");
    let opts = opts_for(check, tier, &mut fr);
    let (mut t, plan) = gen::baseline(seed, &opts);
    // environment (the same for the fault-free and the faulted world): how the link directory is named,
    // whether the metadata transport preserves time stamps
    {
        let mut er = Rng::stream(seed, "environment");
        t.link_dir_style = match er.weighted(&[70, 15, 15]) {
            0 => 0,
            1 => 1,
            _ => 2,
        };
        t.fixed_mtime = er.chance(1, 3);
        t.same_thread = gen::same_thread_block(seed);
        if er.chance(1, 6) {
            t.via_symlink = Some(er.next());
        } else if er.chance(1, 4) {
            // (time-stamp preserving more often than not: that is how in-place updates go unnoticed)
            t.in_place = true;
            t.fixed_mtime = er.chance(2, 3);
        }
        {
            // (own stream: the draws above stay what they were)
            let mut br = Rng::stream(seed, "mtime-backwards");
            if br.chance(1, 8) && t.via_symlink.is_none() {
                t.mtime_backwards = true;
                t.in_place = br.chance(1, 2) || t.in_place;
            }
        }
        // the caller may ask for a named summary (the parameter the recursion uses for delegated levels)
        if check != "C15" && er.chance(1, 4) {
            t.step_name = Some(gen::simple_name(&mut er));
        }
    }
    // the fault-free world must be accepted, otherwise nothing about the faulted one is decided
    let before = rec.evaluations;
    let o = run_supply(&t, scratch);
    RECENT.with(|h| {
        let mut h = h.borrow_mut();
        h.push(t.clone());
        if h.len() > HISTORY_LEN {
            h.remove(0);
        }
    });
    let accepted = o.no_layout.is_none() && o.verdicts.iter().all(|v| v.ok);
    if !accepted {
        // counted, and reported in the evidence; the faulted world is judged all the same: the oracles
        // are necessary conditions for Ok, which do not depend on the baseline having been accepted
        // (a change that makes the verifier reject valid worlds and accept the matching invalid ones —
        // e.g. looking for delegated links in the wrong directory — would otherwise hide behind this)
        rec.evaluations = before + 1;
        rec.vacuous += 1;
        let why = o.no_layout.clone().unwrap_or_else(|| o.verdicts.first().map(|v| v.short()).unwrap_or_default());
        rec.vacuous_why.push(why.chars().take(160).collect());
        // a panic on a fault-free world is still a crash
        let j = oracle::judge_supply(&t, &o);
        for f in j.findings {
            if f.prop == "C14" && check == "C14" {
                rec.own.push(Violation { seed, index, site: site_of(&f, &t.labels), finding: f, trace: Trace::Supply(t.clone()) });
            } else if f.prop == "C14" || f.prop == "C13" {
                rec.cross.push(f);
            }
        }
    }
    if check == "C07" && !t.root.layout.steps.is_empty() && Rng::stream(seed, "c07-many").chance(1, 5) {
        // a step with MANY functionaries (5-9 agreeing links; the threshold needs only some of them): the
        // dissenter of the fault below is one among many, anywhere in key-id order
        let mut mr = Rng::stream(seed, "c07-many-keys");
        let ed_only = t.keys.iter().all(|k| k.kind.is_ed());
        let si = mr.idx(t.root.layout.steps.len());
        let sname = t.root.layout.steps[si].name.clone();
        let template = t.root.files.iter().find(|f| f.name.starts_with(&format!("{}.", sname)) && matches!(f.body, crate::world::Body::Link(_))).cloned();
        if let Some(tpl) = template {
            let have = t.root.files.iter().filter(|f| f.name.starts_with(&format!("{}.", sname))).count();
            let want = 5 + mr.idx(5);
            for _ in have..want {
                let ks = crate::keys::draw_keys(&mut mr, 1, ed_only, false)[0];
                if t.keys.contains(&ks) {
                    continue;
                }
                t.keys.push(ks);
                let k = t.keys.len() - 1;
                t.root.layout.key_table.push(k);
                t.root.layout.steps[si].pubkeys.push(k);
                let mut nf = tpl.clone();
                nf.name = gen::link_name(&sname, &t.keys, k);
                nf.doc.signers = vec![k];
                nf.doc.ops.clear();
                t.root.files.push(nf);
            }
            t.root.layout.steps[si].threshold = t.root.layout.steps[si].threshold.max(2 + mr.below(3) as u32);
            t.labels.push("MANY-FUNCTIONARIES".into());
        }
    }
    if check == "C15" && !t.root.layout.inspect.is_empty() && !t.root.layout.steps.is_empty() && fr.chance(1, 3) {
        // an inspection that bears the name of a step (names need not be unique across the two lists)
        let si = if fr.chance(1, 2) { t.root.layout.steps.len() - 1 } else { fr.idx(t.root.layout.steps.len()) };
        let n = t.root.layout.steps[si].name.clone();
        t.root.layout.inspect[0].name = n;
        t.labels.push("INSPECTION-NAMED-LIKE-STEP".into());
    }
    if check == "C15" && fr.chance(1, 3) {
        // the caller asks for a named summary
        t.step_name = Some(gen::simple_name(&mut fr));
    }
    // storage that fails now and then while the faulted world is verified (not while the baseline is)
    if fr.chance(1, 12) {
        t.read_eio = Some(*fr.pick(&[100u64, 300, 600]));
    }
    let baseline_trace = t.clone();
    let (primary, secondary) = faults_for(check);
    let n_faults = 1 + fr.weighted(&[60, 30, 10]);
    let mut applied = 0;
    let mut tries = 0;
    while applied < n_faults && tries < 12 {
        tries += 1;
        let f = if applied == 0 || fr.chance(1, 2) { *fr.pick(primary) } else { *fr.pick(secondary) };
        let prefer_sub = check == "C15" && fr.chance(1, 2);
        if gen::apply_fault(&mut t, &plan, f, &mut fr, prefer_sub) {
            applied += 1;
        }
    }
    let _ = (&baseline_trace, plan.now);
    exec_supply(check, &t, scratch, rec, seed, index);
}

/// C13: worlds biased to the dangerous shape, verified N times under different hash keys / arrival orders.
pub fn run_c13(tier: Tier, seed: u64, index: u64, scratch: &Scratch, rec: &mut RunRecord) {
    let mut fr = Rng::stream(seed, "faults");
    let mut opts = opts_for("C13", tier, &mut fr);
    opts.reps = if tier == Tier::Quick { 12 } else { 48 };
    opts.max_steps = 3;
    // one world in eight: delegations that share one sub-layout, as surplus evidence (shape 7)
    let shared_sub = Rng::stream(seed, "c13-shape").chance(1, 8);
    if shared_sub {
        opts.delegation_pct = 75;
    }
    let (mut t, plan) = gen::baseline(seed, &opts);
    // surplus, differing links: for one step add authorized signers whose links carry other products
    let ed_only = t.keys.iter().all(|k| k.kind.is_ed());
    let n_steps = t.root.layout.steps.len();
    let si = fr.idx(n_steps);
    let mut shape = fr.below(7);
    if shared_sub {
        shape = 7;
        // two functionaries of one step file the same sub-layout (co-signed or signed separately); the
        // second one's own sub-directory is empty, incomplete, badly signed, or holds valid evidence with
        // other products; one filing would satisfy the step
        if gen::apply_fault(&mut t, &plan, F::SharedSub, &mut fr, false) {
            let names: Vec<String> = t.root.layout.steps.iter().map(|s| s.name.clone()).collect();
            for (i, n) in names.iter().enumerate() {
                let subs = t.root.files.iter().filter(|f| f.name.starts_with(&format!("{}.", n)) && matches!(f.body, crate::world::Body::Layout(_))).count();
                if subs >= 2 && fr.chance(3, 4) {
                    t.root.layout.steps[i].threshold = 1;
                }
            }
            t.labels.push("SHARED-SUBLAYOUT-SURPLUS".into());
        }
    }
    // one world in ten: an inspection whose rules hinge on the DIGEST of a delivered file (it must be the
    // last step's product), with the bytes of that file arriving in short reads / after EINTR on every
    // other repetition (shape 8)
    let digest_insp = !shared_sub && Rng::stream(seed, "c13-shape8").chance(1, 10);
    if digest_insp {
        shape = 8;
        let mut cr = Rng::stream(seed, "c13-shape8-content");
        let size = *cr.pick(&[10usize, 700, 5000, 9000, 20000]);
        let content: String = (0..size).map(|i| (b'a' + ((i as u64 * 7 + seed) % 26) as u8) as char).collect();
        let last = t.root.layout.steps[n_steps - 1].name.clone();
        let mut dg = std::collections::BTreeMap::new();
        dg.insert("sha256".to_string(), gen::sha256_hex(content.as_bytes()));
        for f in t.root.files.iter_mut() {
            if f.name.starts_with(&format!("{}.", last)) {
                if let crate::world::Body::Link(l) = &mut f.body {
                    l.products.insert("delivered.bin".into(), dg.clone());
                }
            }
        }
        t.root.layout.steps[n_steps - 1].exp_prod.insert(0, vec!["ALLOW".into(), "delivered.bin".into()]);
        t.root.layout.inspect.push(crate::world::InspSpec {
            name: "final-check".into(),
            exp_mat: vec![vec!["MATCH".into(), "delivered.bin".into(), "WITH".into(), "PRODUCTS".into(), "FROM".into(), last], vec!["DISALLOW".into(), "delivered.bin".into()], vec!["ALLOW".into(), "*".into()]],
            exp_prod: vec![vec!["ALLOW".into(), "*".into()]],
            actor: crate::world::ActorScript { id: "root#final-check".into(), ops: vec![], stdout: vec![], stderr: vec![], exit: crate::world::ExitSpec::Code(0) },
        });
        t.work_files = vec![("delivered.bin".into(), content), ("notes.txt".into(), "n".into())];
        t.hash_seeds.truncate(6);
        t.read_faults = Some(match cr.below(3) {
            0 => (600, 0),
            1 => (300, 200),
            _ => (150, 50),
        });
        t.labels.push("INSPECTION-DIGEST-MATCH".into());
    }
    // one world in twelve (shape 10): after each repetition the same call is made by 24 caller threads at
    // once — what the library shares between callers must not make their verdicts differ
    if !shared_sub && !digest_insp && Rng::stream(seed, "c13-shape10").chance(1, 12) {
        t.concurrent = 24;
        t.hash_seeds.truncate(3);
        t.labels.push("CONCURRENT-CALLERS".into());
    }
    // one world in twelve (shape 9): the link directory held ANOTHER world's files a moment ago — the same
    // paths, the same sizes, time stamps preserved, updated in place — and that world was verified by this
    // process; the present world is verified where those files lay and, on odd repetitions, in a fresh
    // directory: the verdicts must be the same
    let stale_dir = !shared_sub && !digest_insp && Rng::stream(seed, "c13-shape9").chance(1, 12);
    if stale_dir {
        let mut sr = Rng::stream(seed, "c13-shape9-edit");
        t.in_place = true;
        t.fixed_mtime = true;
        t.link_dir_style = 0;
        t.hash_seeds.truncate(2);
        // the earlier world: this one as it is (accepted)
        let earlier = t.clone();
        let _ = run_supply(&earlier, scratch);
        RECENT.with(|h| {
            let mut h = h.borrow_mut();
            h.push(earlier.clone());
            if h.len() > HISTORY_LEN {
                h.remove(0);
            }
        });
        // the present world: one link's signature value differs in one hex digit (same length)
        let links: Vec<usize> = t.root.files.iter().enumerate().filter(|(_, f)| matches!(f.body, crate::world::Body::Link(_))).map(|(i, _)| i).collect();
        if !links.is_empty() {
            let fi = *sr.pick(&links);
            t.root.files[fi].doc.ops.push(crate::world::DocOp::SigFlip { at: 0, bit: sr.idx(256) });
            t.alt_dir_on_odd_reps = true;
            t.labels.push("SAME-PATHS-NEW-CONTENT".into());
            exec_supply("C13", &t, scratch, rec, seed, index);
            return;
        }
    }
    let sname = t.root.layout.steps[si].name.clone();
    let template = t.root.files.iter().find(|f| f.name.starts_with(&format!("{}.", sname)) && matches!(f.body, crate::world::Body::Link(_))).cloned();
    if let (Some(tpl), true) = (template, shape < 7) {
        if shape < 3 {
            if t.root.layout.steps[si].threshold > 1 && fr.chance(2, 3) {
                // keep multi-party steps as they are sometimes: surplus beyond threshold must agree anyway
            } else {
                t.root.layout.steps[si].threshold = fr.below(2) as u32;
                // drop all but one of the existing links so that the baseline is a threshold-<=1 step
            }
            let extra = 1 + fr.idx(3);
            for e in 0..extra {
                let k = {
                    let ks = crate::keys::draw_keys(&mut fr, 1, ed_only, false)[0];
                    t.keys.push(ks);
                    t.keys.len() - 1
                };
                t.root.layout.key_table.push(k);
                t.root.layout.steps[si].pubkeys.push(k);
                let mut nf = tpl.clone();
                nf.name = gen::link_name(&sname, &t.keys, k);
                nf.doc.signers = vec![k];
                if let crate::world::Body::Link(l) = &mut nf.body {
                    // (one world in four: the surplus links record one product under a further algorithm as
                    // well, each with another value — pairwise different digest objects that all share sha256)
                    if fr.chance(1, 4) && !l.products.is_empty() {
                        let p = l.products.keys().next().cloned().unwrap();
                        if let Some(d) = l.products.get_mut(&p) {
                            d.insert("sha512".into(), gen::sha512_hex(format!("surplus-{e}").as_bytes()));
                        }
                        t.root.layout.steps[si].threshold = 2;
                        t.root.files.push(nf);
                        continue;
                    }
                    match (shape + e as u64) % 3 {
                        0 => {
                            // another digest for one product: the next step's MATCH no longer holds
                            if let Some(p) = l.products.keys().next().cloned() {
                                l.products.insert(p, gen::digest_of(5_000_000 + e as u64, false));
                            } else {
                                l.products.insert("variant".into(), gen::digest_of(5_000_100 + e as u64, false));
                            }
                        }
                        1 => {
                            l.products.insert(format!("variant{e}"), gen::digest_of(5_000_200 + e as u64, false));
                        }
                        _ => {
                            l.materials.insert(format!("variant-m{e}"), gen::digest_of(5_000_300 + e as u64, false));
                        }
                    }
                }
                t.root.files.push(nf);
            }
            t.labels.push("SURPLUS-DIFFERING".into());
            // a stray link among them: validly signed by a key the layout defines but does not authorize
            // for this step (or by a stranger), filed under that key's own prefix
            if fr.chance(1, 3) {
                let k = {
                    let ks = crate::keys::draw_keys(&mut fr, 1, ed_only, false)[0];
                    t.keys.push(ks);
                    t.keys.len() - 1
                };
                if fr.chance(2, 3) {
                    t.root.layout.key_table.push(k);
                }
                let mut nf = tpl.clone();
                nf.name = gen::link_name(&sname, &t.keys, k);
                nf.doc.signers = vec![k];
                if let crate::world::Body::Link(l) = &mut nf.body {
                    l.products.insert("stray".into(), gen::digest_of(5_000_900, false));
                }
                t.root.files.push(nf);
                t.labels.push("STRAY-LINK".into());
            }
            // one world in four (own stream): one of the step's links exists a second time under a file name that
            // re-spells its key-id prefix in upper-case hex, validly signed by the same key, recording another
            // product — whether such a file counts is left open, which of the two is used must not depend on the
            // order in which the directory enumerates them
            {
                let mut cr = Rng::stream(seed, "c13-case-variant");
                if cr.chance(1, 4) {
                    let own: Vec<usize> = t.root.files.iter().enumerate().filter(|(_, f)| f.name.starts_with(&format!("{}.", sname)) && f.name.ends_with(".link") && matches!(f.body, crate::world::Body::Link(_))).map(|(i, _)| i).collect();
                    if !own.is_empty() {
                        let src = t.root.files[*cr.pick(&own)].clone();
                        let stem = &src.name[..src.name.len() - ".link".len()];
                        if let Some(dot) = stem.rfind('.') {
                            let (head, prefix) = stem.split_at(dot + 1);
                            let up = prefix.to_ascii_uppercase();
                            if up != prefix {
                                let mut nf = src.clone();
                                nf.name = format!("{head}{up}.link");
                                if let crate::world::Body::Link(l) = &mut nf.body {
                                    l.products.insert("variant-case".into(), gen::digest_of(5_000_700, false));
                                }
                                t.root.files.push(nf);
                                t.labels.push("CASE-VARIANT-FILENAME".into());
                            }
                        }
                    }
                }
            }
        } else if shape == 3 {
            t.labels.push("PLAIN".into());
        } else if shape == 4 {
            // artifacts with two digests each; the receiving step's materials agree with the producing
            // step's products in one algorithm and disagree in the other
            if n_steps >= 2 {
                let si = 1 + fr.idx(n_steps - 1);
                let prev = t.root.layout.steps[si - 1].name.clone();
                let cur = t.root.layout.steps[si].name.clone();
                for f in t.root.files.iter_mut() {
                    if let crate::world::Body::Link(l) = &mut f.body {
                        let is_prev = f.name.starts_with(&format!("{}.", prev));
                        let is_cur = f.name.starts_with(&format!("{}.", cur));
                        if is_prev {
                            for (p, d) in l.products.iter_mut() {
                                d.insert("sha512".into(), gen::sha512_hex(p.as_bytes()));
                            }
                        }
                        if is_cur {
                            for (p, d) in l.materials.iter_mut() {
                                d.insert("sha512".into(), gen::sha512_hex(format!("other-{p}").as_bytes()));
                            }
                        }
                    }
                }
                t.labels.push("PARTIAL-DIGEST".into());
            }
        } else if shape == 6 {
            // an inspection whose rules look at the working directory, which holds several names for one
            // file; the entries are created in another order on every repetition
            let name = "dirscan".to_string();
            t.root.layout.inspect.push(crate::world::InspSpec {
                name: name.clone(),
                // (a directory that is reachable under two sibling names must be recorded under both)
                // (a directory that is reachable under several sibling names is recorded under each of them,
                // whichever the directory lists first: the rules ask for ONE of the names)
                exp_mat: vec![vec!["REQUIRE".into(), "libfoo.so".into()], vec!["REQUIRE".into(), (*fr.pick(&["out/app.bin", "latest/app.bin", "current/app.bin"])).into()], vec!["ALLOW".into(), "*".into()]],
                exp_prod: vec![vec!["REQUIRE".into(), "zz-last".into()], vec!["ALLOW".into(), "*".into()]],
                actor: crate::world::ActorScript { id: format!("root#{name}"), ops: vec![], stdout: vec![], stderr: vec![], exit: crate::world::ExitSpec::Code(0) },
            });
            t.work_files = vec![("libfoo.so.1.0".into(), "ELF".into()), ("aaa-first".into(), "1".into()), ("zz-last".into(), "2".into()), ("middle".into(), "3".into()), ("out/app.bin".into(), "APP".into())];
            t.work_links = vec![("libfoo.so".into(), "libfoo.so.1.0".into()), ("libfoo.so.1".into(), "libfoo.so.1.0".into()), ("alias".into(), "middle".into()), ("latest".into(), "out".into()), ("current".into(), "latest".into())];
            t.hash_seeds.truncate(6);
            t.labels.push("INSPECTION-DIR-ORDER".into());
        } else {
            // one key under two key ids (raw ed25519 and its PKCS#8 import), both authorized for one
            // step, each with its own, different link
            let signer = tpl.doc.signers.first().copied();
            if let Some(k) = signer {
                if t.keys[k].kind == crate::keys::KeyKind::Ed {
                    let alias = crate::keys::KeySpec { kind: crate::keys::KeyKind::EdPk8, seed: t.keys[k].seed };
                    t.keys.push(alias);
                    let a = t.keys.len() - 1;
                    t.root.layout.key_table.push(a);
                    t.root.layout.steps[si].pubkeys.push(a);
                    t.root.layout.steps[si].threshold = fr.below(2) as u32;
                    let mut nf = tpl.clone();
                    nf.name = gen::link_name(&sname, &t.keys, a);
                    nf.doc.signers = vec![a];
                    if let crate::world::Body::Link(l) = &mut nf.body {
                        l.products.insert("alias-variant".into(), gen::digest_of(5_100_000, false));
                    }
                    t.root.files.push(nf);
                    t.labels.push("ALIASED-KEY-IDS".into());
                }
            }
        }
    }
    // the bytes of the link files arrive in short reads / after EINTR on every other repetition
    if !digest_insp && fr.chance(1, 3) {
        t.read_faults = Some(match fr.below(3) {
            0 => (500, 0),
            1 => (300, 200),
            _ => (0, 300),
        });
    }
    t.rel_link_dir = fr.chance(1, 4);
    // a second arrival order
    let mut ar = Rng::stream(seed, "arrival2");
    t.arrivals = (0..6).map(|_| ar.next()).collect();
    if fr.chance(1, 5) {
        let plan = gen::Plan::default();
        let _ = plan;
        t.file_faults.clear();
    }
    exec_supply("C13", &t, scratch, rec, seed, index);
}

pub fn run_one(check: &str, tier: Tier, seed: u64, index: u64, scratch: &Scratch) -> RunRecord {
    let mut rec = RunRecord::default();
    match check {
        // C07: one run in thirty-two is a pipeline run in which one step is really carried out by two functionaries
        "C07" if (index >> 4) % 32 == 9 => crate::pipeline::run_check("C07", tier, seed, index, scratch, &mut rec),
        "C01" | "C02" | "C07" | "C15" => run_supply_check(check, tier, seed, index, scratch, &mut rec),
        "C13" => run_c13(tier, seed, index, scratch, &mut rec),
        "C06" => crate::grid::run_c06(tier, seed, index, scratch, &mut rec),
        "C08" if index >= (if tier == Tier::Quick { 192 } else { 4_000 }) => crate::pipeline::run_check("C08", tier, seed, index, scratch, &mut rec),
        "C08" => crate::grid::run_c08(tier, seed, index, scratch, &mut rec),
        "C14" => crate::crash::run_c14(tier, seed, index, scratch, &mut rec),
        // one run in sixteen carries the chain out for real (in_toto_run per step, artifact transport); chosen by
        // blocks of sixteen indices so that the costly runs spread over all workers (worker = index mod workers)
        // (SCSIM_ONLY_PIPELINE: a debugging aid for sensitivity trials — every run of the check is a pipeline run)
        "C03" | "C18" | "C07" if std::env::var_os("SCSIM_ONLY_PIPELINE").is_some() => crate::pipeline::run_check(check, tier, seed, index, scratch, &mut rec),
        "C03" if (index >> 4) % 16 == 5 => crate::pipeline::run_check("C03", tier, seed, index, scratch, &mut rec),
        "C03" => crate::rules::run_c03(tier, seed, index, scratch, &mut rec),
        "C04" => crate::ceremony::run_c04(tier, seed, index, &mut rec),
        "C09" => crate::ceremony::run_c09(tier, seed, index, &mut rec),
        "C05" => crate::ceremony::run_c05(tier, seed, index, &mut rec),
        "C17" => crate::channel::run_c17(tier, seed, index, scratch, &mut rec),
        "C18" if (index >> 4) % 64 == 7 => crate::pipeline::run_check("C18", tier, seed, index, scratch, &mut rec),
        "C18" => crate::recorder::run_c18(tier, seed, index, scratch, &mut rec),
        _ => panic!("unknown check {check}"),
    }
    rec
}

/// Re-execute a trace and report the findings of `prop` (used by replay and by the minimiser).
pub fn replay_trace(prop: &str, trace: &Trace, scratch: &Scratch) -> Vec<Finding> {
    let mut rec = RunRecord::default();
    if !matches!(trace, Trace::Seq(_)) {
        clear_history();
    }
    match trace {
        Trace::Supply(t) => exec_supply(prop, t, scratch, &mut rec, 0, 0),
        Trace::Ceremony(t) => crate::ceremony::replay(prop, t, &mut rec),
        Trace::Channel(t) => crate::channel::replay(prop, t, scratch, &mut rec),
        Trace::Recorder(t) => crate::recorder::replay(prop, t, scratch, &mut rec),
        Trace::Rules(t) => crate::rules::replay(prop, t, scratch, &mut rec),
        Trace::Bytes(t) => crate::crash::replay(prop, t, &mut rec),
        Trace::Pipeline(t) => crate::pipeline::replay(prop, t, scratch, &mut rec),
        Trace::SeedSeq { .. } => vec![],
        Trace::Seq(ts) if ts.iter().all(|t| matches!(t, Trace::Ceremony(_))) => {
            let cs: Vec<&crate::ceremony::CeremonyTrace> = ts.iter().filter_map(|t| if let Trace::Ceremony(c) = t { Some(c) } else { None }).collect();
            crate::ceremony::replay_seq(prop, &cs, &mut rec)
        }
        Trace::Seq(ts) => {
            let mut last = vec![];
            for (i, t) in ts.iter().enumerate() {
                let f = replay_trace(prop, t, scratch);
                if i + 1 == ts.len() {
                    last = f;
                }
            }
            last
        }
    }
}
