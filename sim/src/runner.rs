//! Parent / worker orchestration, merging, evidence, known findings, replay verification.
//!
//! Parallelism is by processes (the cwd is process-global). Worker w handles run indices
//! i ≡ w (mod W); everything that is merged is a sum, a set union or "the lowest index", so the
//! outcome does not depend on the worker count.

use crate::checks::{self, RunRecord, Tier, Trace, Violation};
use crate::exec::Scratch;
use crate::oracle::Finding;
use serde::{Deserialize, Serialize};
use serde_json::{json, Value};
use std::collections::{BTreeMap, BTreeSet};
use std::io::Write;
use std::path::{Path, PathBuf};

pub const DEFAULT_SEED: u64 = 20261002;

/// A set of 64-bit digests that stays bounded: exact up to `DISTINCT_CAP` members; beyond that it keeps only the
/// digests whose low `level` bits are zero (every retained member is a genuinely distinct case, so `len()` is a
/// lower bound of the number of distinct cases; `len() << level` estimates it). Union of two such sets is again
/// one (at the larger level), so the merged outcome does not depend on the worker count while the sets are exact.
#[derive(Default, Serialize, Deserialize, Clone)]
pub struct Distinct {
    pub level: u8,
    pub set: BTreeSet<u64>,
}

pub const DISTINCT_CAP: usize = 1 << 20;

impl Distinct {
    pub fn insert(&mut self, d: u64) {
        if self.level == 0 || d & ((1u64 << self.level) - 1) == 0 {
            self.set.insert(d);
            if self.set.len() > DISTINCT_CAP {
                self.shrink();
            }
        }
    }
    fn shrink(&mut self) {
        while self.set.len() > DISTINCT_CAP && self.level < 32 {
            self.level += 1;
            let m = (1u64 << self.level) - 1;
            self.set.retain(|d| d & m == 0);
        }
    }
    pub fn extend(&mut self, o: Distinct) {
        if o.level > self.level {
            self.level = o.level;
            let m = (1u64 << self.level) - 1;
            self.set.retain(|d| d & m == 0);
        }
        let m = (1u64 << self.level) - 1;
        self.set.extend(o.set.into_iter().filter(|d| d & m == 0));
        self.shrink();
    }
    /// number of distinct digests retained: exact while `level == 0`, a lower bound afterwards
    pub fn len(&self) -> usize {
        self.set.len()
    }
    pub fn estimate(&self) -> u64 {
        (self.set.len() as u64) << self.level
    }
}

#[derive(Default, Serialize, Deserialize, Clone)]
pub struct Summary {
    pub worker: u64,
    pub runs_done: u64,
    pub evaluations: u64,
    pub vacuous: u64,
    pub vacuous_why: BTreeMap<String, u64>,
    pub fired: BTreeMap<String, u64>,
    pub probes: BTreeMap<String, u64>,
    pub shapes_all: Distinct,
    pub shapes_nontrivial: Distinct,
    pub schedules: Distinct,
    pub sim_seconds: f64,
    pub verdicts: [u64; 3],
    pub cross: BTreeMap<String, (u64, String)>,
    pub samples: Vec<(u64, Value)>,
    pub violations: Vec<Violation>,
    pub violation_count: u64,
    pub log_digests: BTreeMap<u64, u64>,
    pub last_begun: Option<u64>,
}

impl Summary {
    fn absorb(&mut self, index: u64, rec: RunRecord, keep_log: bool) {
        self.runs_done += 1;
        self.evaluations += rec.evaluations;
        self.vacuous += rec.vacuous;
        for w in rec.vacuous_why {
            *self.vacuous_why.entry(w).or_default() += 1;
        }
        for f in rec.fired {
            *self.fired.entry(f).or_default() += 1;
        }
        for p in rec.probes {
            *self.probes.entry(p).or_default() += 1;
        }
        for (s, nt) in rec.shapes {
            self.shapes_all.insert(s);
            if nt {
                self.shapes_nontrivial.insert(s);
            }
        }
        for s in rec.schedules {
            self.schedules.insert(s);
        }
        self.sim_seconds += rec.sim_seconds;
        for i in 0..3 {
            self.verdicts[i] += rec.verdicts[i];
        }
        for c in rec.cross {
            let e = self.cross.entry(format!("{}:{}", c.prop, c.clause)).or_insert((0, format!("[run index {index}] {}", c.detail)));
            e.0 += 1;
        }
        if let Some(s) = rec.sample {
            if self.samples.len() < 4 {
                self.samples.push((index, s));
            }
        }
        self.violation_count += rec.own.len() as u64;
        for v in rec.own {
            // keep at most a few full traces per distinct site
            let same = self.violations.iter().filter(|x| x.site == v.site).count();
            if same < 2 && self.violations.len() < 40 {
                self.violations.push(v);
            }
        }
        if keep_log {
            self.log_digests.insert(index, rec.log_digest);
        }
    }

    fn merge(&mut self, o: Summary) {
        self.runs_done += o.runs_done;
        self.evaluations += o.evaluations;
        self.vacuous += o.vacuous;
        for (k, v) in o.vacuous_why {
            *self.vacuous_why.entry(k).or_default() += v;
        }
        for (k, v) in o.fired {
            *self.fired.entry(k).or_default() += v;
        }
        for (k, v) in o.probes {
            *self.probes.entry(k).or_default() += v;
        }
        self.shapes_all.extend(o.shapes_all);
        self.shapes_nontrivial.extend(o.shapes_nontrivial);
        self.schedules.extend(o.schedules);
        self.sim_seconds += o.sim_seconds;
        for i in 0..3 {
            self.verdicts[i] += o.verdicts[i];
        }
        for (k, v) in o.cross {
            let e = self.cross.entry(k).or_insert((0, v.1.clone()));
            e.0 += v.0;
        }
        self.samples.extend(o.samples);
        self.samples.sort_by_key(|s| s.0);
        self.samples.truncate(4);
        self.violations.extend(o.violations);
        self.violations.sort_by_key(|v| v.index);
        self.violation_count += o.violation_count;
        self.log_digests.extend(o.log_digests);
    }
}

/// Worker process: runs indices start, start+stride, ... < runs and writes checkpoints of its summary.
pub fn worker_main(check: &str, tier: Tier, base: u64, start: u64, stride: u64, runs: u64, out: &Path, keep_log: bool) {
    crate::install_quiet_panic_hook();
    let mut f = std::fs::OpenOptions::new().create(true).append(true).open(out).expect("worker out");
    // a checkpoint replaces the file (written aside, renamed over it, re-opened for the "B" lines): the file
    // holds the latest summary only — appending every checkpoint made the file grow with the square of the
    // number of runs (tens of GiB of tmpfs in the thorough tier)
    let tmp = PathBuf::from(format!("{}.tmp", out.display()));
    let mut sum = Summary { worker: start, ..Default::default() };
    let mut ckpt_cost_ms: u128 = 0;
    // resume support: the parent may restart a worker after a crash with a later `start`
    let scratch = Scratch::new(&format!("w{start}"));
    let mut i = start;
    let mut since = 0;
    let mut early = 8;
    let mut last_ckpt = std::time::Instant::now();
    while i < runs {
        let seed = base.wrapping_add(i);
        writeln!(f, "B {i}").ok();
        let rec = checks::run_one(check, tier, seed, i, &scratch);
        sum.absorb(i, rec, keep_log);
        since += 1;
        // checkpoints by count and by (monotonic) time, so that a library that crashes or hangs every few
        // runs does not wipe out everything the worker has seen
        // (the first checkpoints of a process come after 8, 16, 32, ... runs: a library that hangs within
        // the first second of every worker would otherwise leave nothing behind at all)
        // (a checkpoint costs time in proportion to the summary; keep it below ~4 % of the worker's time)
        let due = last_ckpt.elapsed().as_millis() >= 1500u128.max(25 * ckpt_cost_ms);
        if (since >= early.min(500) && last_ckpt.elapsed().as_millis() >= 25 * ckpt_cost_ms) || due {
            early = (early * 2).min(500);
            since = 0;
            let t0 = std::time::Instant::now();
            if let Ok(mut g) = std::fs::File::create(&tmp) {
                writeln!(g, "B {i}").ok();
                writeln!(g, "S {}", serde_json::to_string(&sum).unwrap()).ok();
                drop(g);
                if std::fs::rename(&tmp, out).is_ok() {
                    f = std::fs::OpenOptions::new().create(true).append(true).open(out).expect("worker out");
                }
            }
            ckpt_cost_ms = t0.elapsed().as_millis();
            last_ckpt = std::time::Instant::now();
        }
        i += stride;
    }
    writeln!(f, "S {}", serde_json::to_string(&sum).unwrap()).ok();
    writeln!(f, "D").ok();
    let _ = std::fs::remove_file(format!("/dev/shm/scsim-current-{}.json", std::process::id()));
    drop(scratch);
    crate::exec::cleanup_process_scratch();
}

struct WorkerOut {
    summary: Option<Summary>,
    done: bool,
    last_begun: Option<u64>,
    runs_in_summary_upto: Option<u64>,
}

fn read_worker_file(p: &Path) -> WorkerOut {
    let text = std::fs::read_to_string(p).unwrap_or_default();
    let mut summary = None;
    let mut done = false;
    let mut last_begun = None;
    let mut upto = None;
    let mut last_b_before_s = None;
    for line in text.lines() {
        if let Some(r) = line.strip_prefix("B ") {
            last_begun = r.trim().parse::<u64>().ok();
        } else if let Some(r) = line.strip_prefix("S ") {
            if let Ok(s) = serde_json::from_str::<Summary>(r) {
                summary = Some(s);
                last_b_before_s = last_begun;
                upto = last_b_before_s;
            }
        } else if line == "D" {
            done = true;
        }
    }
    WorkerOut { summary, done, last_begun, runs_in_summary_upto: upto }
}

pub struct CheckArgs {
    pub check: String,
    pub tier: Tier,
    pub seed: u64,
    pub runs: u64,
    pub workers: u64,
    pub keep_log: bool,
    pub write_evidence: bool,
}

pub struct CheckResult {
    pub summary: Summary,
    pub crashes: Vec<(u64, String)>,
    pub crash_traces: Vec<(u64, Trace)>,
    pub wall_s: f64,
}

fn proc_wchan(pid: u32) -> String {
    std::fs::read_to_string(format!("/proc/{pid}/wchan")).unwrap_or_default()
}

/// Run all workers of one check and merge.
pub fn run_check(a: &CheckArgs) -> CheckResult {
    let t0 = std::time::Instant::now();
    let exe = std::env::current_exe().expect("exe");
    let dir = PathBuf::from(format!("/dev/shm/scsim-{}/results", std::process::id()));
    let _ = std::fs::remove_dir_all(&dir);
    std::fs::create_dir_all(&dir).expect("results dir");
    let workers = a.workers.max(1).min(a.runs.max(1));
    let mut crashes: Vec<(u64, String)> = vec![];
    let mut crash_traces: Vec<(u64, Trace)> = vec![];
    let mut total = Summary::default();
    // (worker id, start index)
    let mut pending: Vec<(u64, u64, u32)> = (0..workers).map(|w| (w, w, 0)).collect();
    let mut generation = 0;
    while !pending.is_empty() {
        generation += 1;
        let mut children = vec![];
        for (w, start, _) in &pending {
            let out = dir.join(format!("w{w}-g{generation}.out"));
            let child = std::process::Command::new(&exe)
                .args([
                    "worker",
                    &a.check,
                    a.tier.name(),
                    &a.seed.to_string(),
                    &start.to_string(),
                    &workers.to_string(),
                    &a.runs.to_string(),
                    out.to_str().unwrap(),
                    if a.keep_log { "log" } else { "nolog" },
                ])
                .stdin(std::process::Stdio::null())
                .stdout(std::process::Stdio::null())
                .stderr(std::process::Stdio::null())
                .spawn()
                .expect("spawn worker");
            children.push((*w, *start, out, child));
        }
        let mut next = vec![];
        // phase 1: wait for all workers of this generation; a worker whose output file has not been
        // touched for 60 s (normal: a line every few milliseconds) is stuck and is killed
        let mut live: Vec<(u64, u64, PathBuf, std::process::Child, Option<Option<std::process::ExitStatus>>, bool)> =
            children.into_iter().map(|(w, st, out, ch)| (w, st, out, ch, None, false)).collect();
        loop {
            let mut running = 0;
            for (_w, start, out, child, status, killed) in live.iter_mut() {
                if status.is_some() {
                    continue;
                }
                match child.try_wait() {
                    Ok(Some(st)) => {
                        *status = Some(Some(st));
                        continue;
                    }
                    Ok(None) => {}
                    Err(_) => {
                        *status = Some(None);
                        continue;
                    }
                }
                running += 1;
                let idle = std::fs::metadata(&*out).and_then(|m| m.modified()).ok().and_then(|m| m.elapsed().ok()).map(|d| d.as_secs()).unwrap_or(0);
                if idle >= 60 {
                    let wo = read_worker_file(out);
                    let wchan = proc_wchan(child.id());
                    let _ = child.kill();
                    let _ = child.wait();
                    crashes.push((wo.last_begun.unwrap_or(*start), format!("no progress for 60 s (kernel wait state: {}) - killed by watchdog", wchan.trim())));
                    *status = Some(None);
                    *killed = true;
                }
            }
            if running == 0 {
                break;
            }
            std::thread::sleep(std::time::Duration::from_millis(50));
        }
        for (w, start, out, child, status, _killed) in live {
            let pid = child.id();
            let status = status.flatten();
            let wo = read_worker_file(&out);
            if let Some(s) = wo.summary.clone() {
                total.merge(s);
            }
            if !wo.done {
                // crashed (abort, stack overflow, kill): attribute to the run that had begun
                let at = wo.last_begun.unwrap_or(start);
                if status.is_some() {
                    crashes.push((at, format!("worker process died: {:?}", status)));
                }
                let cur = PathBuf::from(format!("/dev/shm/scsim-current-{}.json", pid));
                if let Ok(b) = std::fs::read(&cur) {
                    if let Ok(tr) = serde_json::from_slice::<Trace>(&b) {
                        crash_traces.push((at, tr));
                    }
                }
                let _ = std::fs::remove_file(&cur);
                // runs between the last checkpoint and the crash are re-done by the restarted
                // worker, except the crashing one
                let resume = match wo.runs_in_summary_upto {
                    Some(u) => u + workers,
                    None => start,
                };
                let mut resume = resume;
                if resume <= at {
                    // re-run from checkpoint but skip the crashing index: simplest is to restart after it
                    resume = at + workers;
                }
                if resume < a.runs {
                    next.push((w, resume, 0));
                }
            }
        }
        pending = next;
        // a library that crashes on every other world: enough has been seen
        if generation > 64 || crashes.len() > 48 {
            break;
        }
    }
    let _ = std::fs::remove_dir_all(&dir);
    CheckResult { summary: total, crashes, crash_traces, wall_s: t0.elapsed().as_secs_f64() }
}

// ---------------------------------------------------------------------------------------------
// known findings
// ---------------------------------------------------------------------------------------------
#[derive(Deserialize, Serialize, Clone, Debug)]
pub struct KnownFinding {
    pub property: String,
    pub clause: String,
    /// substring that must occur in the violation's site string
    pub site: String,
    pub status: String,
    #[serde(default)]
    pub commit: String,
    #[serde(default)]
    pub replay: String,
    pub what: String,
}

pub fn load_known(verif: &Path) -> Vec<KnownFinding> {
    let p = verif.join("known_findings.json");
    match std::fs::read_to_string(&p) {
        Ok(t) => {
            let v: Value = serde_json::from_str(&t).unwrap_or(json!({"findings": []}));
            serde_json::from_value(v["findings"].clone()).unwrap_or_default()
        }
        Err(_) => vec![],
    }
}

fn matches_known<'a>(k: &'a [KnownFinding], prop: &str, clause: &str, site: &str) -> Option<&'a KnownFinding> {
    k.iter().find(|x| x.status == "known" && x.property == prop && x.clause == clause && site.contains(&x.site))
}

// ---------------------------------------------------------------------------------------------
// replay files
// ---------------------------------------------------------------------------------------------
#[derive(Serialize, Deserialize, Clone, Debug)]
pub struct ReplayFile {
    pub format: u32,
    pub property: String,
    pub clause: String,
    pub site: String,
    pub seed: u64,
    pub index: u64,
    pub tier: String,
    pub detail: String,
    pub minimised: bool,
    pub trace: Trace,
}

pub fn replay_inner(path: &Path) -> i32 {
    crate::install_quiet_panic_hook();
    let text = match std::fs::read_to_string(path) {
        Ok(t) => t,
        Err(e) => {
            eprintln!("cannot read {}: {e}", path.display());
            return 2;
        }
    };
    let rf: ReplayFile = match serde_json::from_str(&text) {
        Ok(r) => r,
        Err(e) => {
            eprintln!("not a replay file: {e}");
            return 2;
        }
    };
    if let Err(e) = crate::seams::selftest() {
        eprintln!("HARNESS ERROR: {e}");
        return 2;
    }
    if let Trace::SeedSeq { check, tier, base, indices } = &rf.trace {
        let last = match indices.last() {
            Some(l) => *l,
            None => return 2,
        };
        let (seq, own) = seq_digest(check, *tier, *base, indices);
        if rf.clause != "verdict-depends-on-process-history" {
            // a violation that needs the runs the worker executed before it
            crate::exec::cleanup_process_scratch();
            return if let Some(f) = own.iter().find(|f| f.prop == rf.property && f.clause == rf.clause) {
                println!("reproduced after {} earlier runs in the same process: {} / {}: {}", indices.len() - 1, f.prop, f.clause, f.detail);
                println!("VIOLATION property={} replay={}", rf.property, path.display());
                1
            } else {
                println!("did not reproduce");
                0
            };
        }
        let solo = solo_digest(check, *tier, *base, last);
        crate::exec::cleanup_process_scratch();
        return if solo.is_some() && seq.is_some() && solo != seq {
            println!("reproduced: run index {last} gives event log {:?} alone in a fresh process and {:?} after {} earlier runs in the same process", solo, seq, indices.len() - 1);
            println!("VIOLATION property={} replay={}", rf.property, path.display());
            1
        } else {
            println!("did not reproduce (alone {:?}, in sequence {:?})", solo, seq);
            0
        };
    }
    let scratch = Scratch::new("replay");
    let fs = checks::replay_trace(&rf.property, &rf.trace, &scratch);
    drop(scratch);
    crate::exec::cleanup_process_scratch();
    for f in &fs {
        if f.prop == rf.property && f.clause == rf.clause {
            println!("reproduced: {} / {}: {}", f.prop, f.clause, f.detail);
            println!("VIOLATION property={} replay={}", rf.property, path.display());
            return 1;
        }
    }
    println!("did not reproduce ({} other findings)", fs.len());
    0
}

/// Event-log digest of one run index executed alone in a fresh process.
pub fn solo_digest(check: &str, tier: Tier, base: u64, index: u64) -> Option<String> {
    let out = std::process::Command::new(std::env::current_exe().ok()?)
        .args(["one", check, tier.name(), &base.to_string(), &index.to_string()])
        .stderr(std::process::Stdio::null())
        .output()
        .ok()?;
    let text = String::from_utf8_lossy(&out.stdout).to_string();
    text.lines().find_map(|l| l.strip_prefix("log_digest ")).and_then(|r| r.split_whitespace().next()).map(|s| s.to_string())
}

/// Execute run indices in order in this process; the event-log digest of the last one and the
/// violations it reported.
pub fn seq_digest(check: &str, tier: Tier, base: u64, indices: &[u64]) -> (Option<String>, Vec<Finding>) {
    let scratch = Scratch::new("seq");
    let mut last = None;
    let mut own = vec![];
    for i in indices {
        let rec = checks::run_one(check, tier, base.wrapping_add(*i), *i, &scratch);
        last = Some(format!("{:016x}", rec.log_digest));
        own = rec.own.iter().map(|v| v.finding.clone()).collect();
    }
    (last, own)
}

/// Does `trace` violate (prop, clause) when it is the first thing a fresh process executes?
pub fn reproduces_in_fresh_process(prop: &str, clause: &str, trace: &Trace) -> bool {
    let path = PathBuf::from(format!("/dev/shm/scsim-{}/probe-{}.json", std::process::id(), clause));
    if let Some(d) = path.parent() {
        let _ = std::fs::create_dir_all(d);
    }
    let rf = ReplayFile {
        format: 1,
        property: prop.into(),
        clause: clause.into(),
        site: String::new(),
        seed: 0,
        index: 0,
        tier: "quick".into(),
        detail: String::new(),
        minimised: false,
        trace: trace.clone(),
    };
    if std::fs::write(&path, serde_json::to_string(&rf).unwrap_or_default()).is_err() {
        return false;
    }
    let out = std::process::Command::new(std::env::current_exe().unwrap()).arg("replay-inner").arg(&path).output();
    let _ = std::fs::remove_file(&path);
    matches!(out.map(|o| o.status.code()), Ok(Some(1)))
}

/// Replays run in a child process: a crash of the process (abort, stack overflow) is then an
/// observable outcome instead of the end of the replay command.
pub fn replay_file(path: &Path) -> i32 {
    let rf: Option<ReplayFile> = std::fs::read_to_string(path).ok().and_then(|t| serde_json::from_str(&t).ok());
    let tmp = PathBuf::from(format!("/dev/shm/scsim-replay-{}.out", std::process::id()));
    let child = std::process::Command::new(std::env::current_exe().unwrap())
        .arg("replay-inner")
        .arg(path)
        .stdout(std::fs::File::create(&tmp).map(std::process::Stdio::from).unwrap_or(std::process::Stdio::null()))
        .stderr(std::process::Stdio::null())
        .spawn();
    let mut child = match child {
        Ok(c) => c,
        Err(e) => {
            eprintln!("cannot start replay: {e}");
            return 2;
        }
    };
    let child_pid = child.id();
    let sweep = move || {
        let _ = std::fs::remove_dir_all(format!("/dev/shm/scsim-{}", child_pid));
        let _ = std::fs::remove_file(format!("/dev/shm/scsim-current-{}.json", child_pid));
    };
    // a trace that makes the library hang is reproduced when it hangs again: 60 s without an exit
    let t0 = std::time::Instant::now();
    let status = loop {
        match child.try_wait() {
            Ok(Some(st)) => break Some(st),
            Ok(None) => {}
            Err(_) => break None,
        }
        let limit = match &rf {
            Some(r) if matches!(r.trace, Trace::SeedSeq { .. }) => 1800,
            _ => 60,
        };
        if t0.elapsed().as_secs() >= limit {
            let _ = child.kill();
            let _ = child.wait();
            let _ = std::fs::remove_file(&tmp);
            sweep();
            return match rf {
                Some(rf) if rf.clause == "process-crash" => {
                    println!("reproduced: the process running the trace did not terminate within 60 s");
                    println!("VIOLATION property={} replay={}", rf.property, path.display());
                    1
                }
                _ => {
                    println!("HARNESS ERROR: replay did not terminate within 60 s");
                    2
                }
            };
        }
        std::thread::sleep(std::time::Duration::from_millis(20));
    };
    struct Out {
        stdout: Vec<u8>,
        status: std::process::ExitStatus,
    }
    let status = match status {
        Some(s) => s,
        None => return 2,
    };
    let out = Out { stdout: std::fs::read(&tmp).unwrap_or_default(), status };
    let _ = std::fs::remove_file(&tmp);
    sweep();
    print!("{}", String::from_utf8_lossy(&out.stdout));
    match out.status.code() {
        Some(0) => 0,
        Some(1) => 1,
        Some(2) => 2,
        other => {
            // killed by a signal or aborted
            match rf {
                Some(rf) if rf.clause == "process-crash" => {
                    println!("reproduced: the process running the trace died ({:?})", out.status);
                    println!("VIOLATION property={} replay={}", rf.property, path.display());
                    1
                }
                _ => {
                    println!("HARNESS ERROR: replay process ended with {:?} ({:?})", other, out.status);
                    2
                }
            }
        }
    }
}

// ---------------------------------------------------------------------------------------------
// the `check` command
// ---------------------------------------------------------------------------------------------
pub fn verif_dir() -> PathBuf {
    std::env::var("SCSIM_VERIF").map(PathBuf::from).unwrap_or_else(|_| PathBuf::from("/verif"))
}

pub fn check_main(a: CheckArgs) -> i32 {
    let verif = verif_dir();
    crate::install_quiet_panic_hook();
    if let Err(e) = crate::seams::selftest() {
        println!("HARNESS ERROR: seam self-test failed: {e}");
        return 2;
    }
    {
        let s = Scratch::new("selftest");
        if let Err(e) = crate::seams::selftest_read(&s.root) {
            println!("HARNESS ERROR: {e}");
            return 2;
        }
        if let Err(e) = crate::actor::selftest(&s) {
            println!("HARNESS ERROR: {e}");
            return 2;
        }
    }
    println!("check {} tier={} seed={} runs={} workers={}", a.check, a.tier.name(), a.seed, a.runs, a.workers);
    let res = run_check(&a);
    let s = &res.summary;
    // own-determinism: re-run a slice of the same seeds and compare event-log digests
    let mut nondet = vec![];
    if a.keep_log {
        // grid checks run hundreds of cases per index
        let n = if matches!(a.check.as_str(), "C06" | "C08" | "C05") { 6.min(a.runs) } else { 64.min(a.runs) };
        let again = run_check(&CheckArgs {
            check: a.check.clone(),
            tier: a.tier,
            seed: a.seed,
            runs: n,
            workers: 5.min(n),
            keep_log: true,
            write_evidence: false,
        });
        for (i, d) in &again.summary.log_digests {
            if let Some(d0) = s.log_digests.get(i) {
                if d0 != d {
                    nondet.push(*i);
                }
            }
        }
    }
    let known = load_known(&verif);
    let mut exit = 0;
    let mut lines = vec![];
    let replays = verif.join("replays").join(&a.check);
    let mut reported_sites: BTreeSet<String> = BTreeSet::new();
    let mut per_clause: BTreeMap<String, u32> = BTreeMap::new();
    let mut known_hit: BTreeSet<String> = BTreeSet::new();
    let mut confirmed_violations = 0u64;
    // crashes of whole worker processes are C14 material
    let mut crash_reports = 0;
    for (idx, why) in &res.crashes {
        let line = format!("worker crash at run index {idx} (seed {}): {why}", a.seed.wrapping_add(*idx));
        lines.push(line.clone());
        crash_reports += 1;
        if crash_reports > 3 {
            continue;
        }
        println!("{line}");
        let tr = res.crash_traces.iter().find(|(i, _)| i == idx).map(|x| x.1.clone());
        match tr {
            Some(trace) => {
                let _ = std::fs::create_dir_all(&replays);
                let path = replays.join(format!("process-crash-{}.json", a.seed.wrapping_add(*idx)));
                let rf = ReplayFile {
                    format: 1,
                    property: if a.check == "C18" { "C18".into() } else { "C14".into() },
                    clause: "process-crash".into(),
                    site: "process-crash".into(),
                    seed: a.seed.wrapping_add(*idx),
                    index: *idx,
                    tier: a.tier.name().into(),
                    detail: why.clone(),
                    minimised: false,
                    trace,
                };
                std::fs::write(&path, serde_json::to_string_pretty(&rf).unwrap()).expect("write replay");
                if matches_known(&known, "C14", "process-crash", why).is_some() {
                    continue;
                }
                if a.check == "C14" || a.check == "C18" {
                    // (C18 promises a recording for every tree; a recorder that aborts the process or
                    // never returns - e.g. because it opens something that is not a regular file -
                    // does not deliver one: the same replay file, reported under the check's own id)
                    println!("VIOLATION property={} replay={}", a.check, path.display());
                    confirmed_violations += 1;
                    exit = 1;
                } else if crash_reports <= 3 {
                    // a crash or hang of the library is C14's clause; in another property's check it
                    // is a cross-finding (with its replay file), not that check's verdict
                    println!("  cross-finding C14:process-crash replay={}", path.display());
                }
            }
            None => {
                if a.check == "C14" {
                    println!("HARNESS ERROR: a worker died and left no trace of the case it was running");
                    if exit == 0 {
                        exit = 2;
                    }
                } else if crash_reports <= 3 {
                    println!("  cross-finding C14:process-crash (no trace of the running case was left)");
                }
            }
        }
    }
    for v in &s.violations {
        if let Some(k) = matches_known(&known, &v.finding.prop, &v.finding.clause, &v.site) {
            if known_hit.insert(k.what.clone()) {
                println!("KNOWN-FINDING: property={} {}", k.property, k.what);
            }
            continue;
        }
        if !reported_sites.insert(v.site.clone()) {
            continue;
        }
        // at most three reports per clause: further sites of the same clause are counted, not listed
        let n_clause = per_clause.entry(v.finding.clause.clone()).or_insert(0u32);
        *n_clause += 1;
        if *n_clause > 3 {
            continue;
        }
        // minimise, write, and confirm the replay in a fresh process before reporting
        let scratch = Scratch::new("min");
        let (trace, minimised) = crate::minimise::minimise(&v.finding.prop, &v.finding.clause, &v.trace, &scratch);
        drop(scratch);
        let _ = std::fs::create_dir_all(&replays);
        let name = format!("{}-{}.json", v.finding.clause, v.seed);
        let path = replays.join(name);
        let rf = ReplayFile {
            format: 1,
            property: v.finding.prop.clone(),
            clause: v.finding.clause.clone(),
            site: v.site.clone(),
            seed: v.seed,
            index: v.index,
            tier: a.tier.name().into(),
            detail: v.finding.detail.clone(),
            minimised,
            trace,
        };
        std::fs::write(&path, serde_json::to_string_pretty(&rf).unwrap()).expect("write replay");
        let mut out = std::process::Command::new(std::env::current_exe().unwrap())
            .args(["replay", path.to_str().unwrap()])
            .output()
            .expect("replay subprocess");
        if out.status.code() != Some(1) && rf.minimised {
            // shrinking happens in this process, whose state is not a fresh process's: fall back to
            // the trace exactly as the worker executed it
            let rf2 = ReplayFile { minimised: false, trace: v.trace.clone(), ..rf.clone() };
            std::fs::write(&path, serde_json::to_string_pretty(&rf2).unwrap()).expect("write replay");
            out = std::process::Command::new(std::env::current_exe().unwrap())
                .args(["replay", path.to_str().unwrap()])
                .output()
                .expect("replay subprocess");
        }
        if out.status.code() != Some(1) {
            // last resort: everything the worker executed up to this run, in its order
            let workers = a.workers.max(1).min(a.runs.max(1));
            let indices: Vec<u64> = (0..=v.index).filter(|k| k % workers == v.index % workers).collect();
            let rf3 = ReplayFile { minimised: false, trace: Trace::SeedSeq { check: a.check.clone(), tier: a.tier, base: a.seed, indices }, ..rf.clone() };
            std::fs::write(&path, serde_json::to_string_pretty(&rf3).unwrap()).expect("write replay");
            out = std::process::Command::new(std::env::current_exe().unwrap())
                .args(["replay", path.to_str().unwrap()])
                .output()
                .expect("replay subprocess");
        }
        if out.status.code() == Some(1) {
            println!("violation: {} / {} — {}", v.finding.prop, v.finding.clause, v.finding.detail);
            println!("VIOLATION property={} replay={}", a.check, path.display());
            confirmed_violations += 1;
            exit = 1;
        } else {
            println!(
                "HARNESS ERROR: violation {} / {} at seed {} did not reproduce from its replay file {} (exit {:?})",
                v.finding.prop,
                v.finding.clause,
                v.seed,
                path.display(),
                out.status.code()
            );
            if exit == 0 {
                exit = 2;
            }
        }
    }
    if !nondet.is_empty() {
        // either the harness is not deterministic (two solo executions of one index differ: exit 2), or the
        // outcome of a run depends on what the process executed before it: state carried over inside the
        // library. The latter is C13's business (the verdict is a function of its inputs).
        let i = nondet[0];
        let s1 = solo_digest(&a.check, a.tier, a.seed, i);
        let s2 = solo_digest(&a.check, a.tier, a.seed, i);
        if s1.is_none() || s1 != s2 {
            println!("HARNESS ERROR: event logs differ between two executions of the same seeds at run indices {:?} (and two solo executions of index {} differ: {:?} vs {:?})", &nondet[..nondet.len().min(8)], i, s1, s2);
            if exit == 0 {
                exit = 2;
            }
        } else {
            // the sequence the main run's worker executed up to i
            let workers = a.workers.max(1).min(a.runs.max(1));
            let mut indices: Vec<u64> = (0..=i).filter(|k| k % workers == i % workers).collect();
            let in_main = res.summary.log_digests.get(&i).map(|d| format!("{:016x}", d));
            if in_main == s1 {
                // then it was the re-run's worker (5 workers) that saw the other outcome
                let w2 = 5u64.min(if matches!(a.check.as_str(), "C06" | "C08" | "C05") { 6.min(a.runs) } else { 64.min(a.runs) });
                indices = (0..=i).filter(|k| k % w2 == i % w2).collect();
            }
            let _ = std::fs::create_dir_all(&replays);
            let path = replays.join(format!("verdict-depends-on-process-history-{}.json", a.seed.wrapping_add(i)));
            let rf = ReplayFile {
                format: 1,
                property: "C13".into(),
                clause: "verdict-depends-on-process-history".into(),
                site: "process-history".into(),
                seed: a.seed.wrapping_add(i),
                index: i,
                tier: a.tier.name().into(),
                detail: format!("run index {i} of check {} gives another event log after {} earlier runs in the same process than alone in a fresh process", a.check, indices.len() - 1),
                minimised: false,
                trace: Trace::SeedSeq { check: a.check.clone(), tier: a.tier, base: a.seed, indices },
            };
            std::fs::write(&path, serde_json::to_string_pretty(&rf).unwrap()).expect("write replay");
            let out = std::process::Command::new(std::env::current_exe().unwrap()).args(["replay", path.to_str().unwrap()]).output().expect("replay subprocess");
            if out.status.code() == Some(1) {
                if a.check == "C13" {
                    println!("violation: C13 / verdict-depends-on-process-history — {}", rf.detail);
                    println!("VIOLATION property=C13 replay={}", path.display());
                    confirmed_violations += 1;
                    exit = 1;
                } else {
                    println!("  cross-finding C13:verdict-depends-on-process-history replay={} ({})", path.display(), rf.detail);
                }
            } else {
                println!("HARNESS ERROR: event logs differ between two executions of the same seeds at run indices {:?}; not reproducible from {}", &nondet[..nondet.len().min(8)], path.display());
                if exit == 0 {
                    exit = 2;
                }
            }
        }
    }
    let judged = s.evaluations.saturating_sub(s.vacuous);
    if judged == 0 {
        println!("HARNESS ERROR: nothing non-vacuous was explored ({} evaluations, all vacuous)", s.evaluations);
        if exit == 0 {
            exit = 2;
        }
    }
    for (p, n) in &s.probes {
        if *n == 0 {
            println!("warning: probe '{p}' never hit");
        }
    }
    if a.write_evidence {
        let ev = evidence_json(&a, &res, confirmed_violations, &lines, &known_hit);
        let dir = verif.join("evidence");
        let _ = std::fs::create_dir_all(&dir);
        std::fs::write(dir.join(format!("{}.json", a.check)), serde_json::to_string_pretty(&ev).unwrap()).expect("write evidence");
    }
    println!(
        "{}: {} runs, {} evaluations ({} vacuous), {} distinct states ({} non-trivial), {} schedules, verdicts ok/err/panic = {:?}, {:.1} s, cross-findings: {:?}",
        a.check,
        s.runs_done,
        s.evaluations,
        s.vacuous,
        s.shapes_all.len(),
        s.shapes_nontrivial.len(),
        s.schedules.len(),
        s.verdicts,
        res.wall_s,
        s.cross.iter().map(|(k, v)| format!("{k}×{}", v.0)).collect::<Vec<_>>()
    );
    for (k, v) in &s.cross {
        println!("  cross-finding {k} ×{}: e.g. {}", v.0, v.1.chars().take(300).collect::<String>());
    }
    if exit == 0 {
        println!("PASS property={} (held on everything explored)", a.check);
    }
    crate::exec::cleanup_process_scratch();
    exit
}

fn evidence_json(a: &CheckArgs, res: &CheckResult, violations: u64, crash_lines: &[String], known_hit: &BTreeSet<String>) -> Value {
    let s = &res.summary;
    let per_hour = if res.wall_s > 0.0 { (s.evaluations as f64 / res.wall_s * 3600.0) as u64 } else { 0 };
    json!({
        "property_id": a.check,
        "tier": a.tier.name(),
        "seed": a.seed,
        "level": checks::level_of(&a.check),
        "wall_s": res.wall_s,
        "violations": violations,
        "coverage": {
            "evaluations": s.evaluations,
            "distinct_nontrivial": s.shapes_nontrivial.len(),
            "rule": crate::doc::rule_text(&a.check),
            "samples": s.samples.iter().map(|x| x.1.clone()).collect::<Vec<_>>(),
            "runs": s.runs_done,
            "seeds": format!("{}..{}", a.seed, a.seed.wrapping_add(a.runs)),
            "runs_per_hour": per_hour,
            "vacuous": s.vacuous,
            "vacuous_reasons": s.vacuous_why.iter().take(12).collect::<BTreeMap<_, _>>(),
            "simulated_time_covered_s": s.sim_seconds,
            "faults_fired": s.fired,
            "probes": s.probes,
            "distinct_states": s.shapes_all.len(),
            "distinct_schedules": s.schedules.len(),
            "distinct_counting": if s.shapes_all.level == 0 && s.shapes_nontrivial.level == 0 && s.schedules.level == 0 {
                json!("exact: every digest was kept")
            } else {
                json!({
                    "note": "more than 2^20 distinct digests: only digests whose low `level` bits are zero are kept; the counts above are the digests kept (each a distinct case: lower bounds), the estimates are count << level",
                    "states_level": s.shapes_all.level, "states_estimate": s.shapes_all.estimate(),
                    "nontrivial_level": s.shapes_nontrivial.level, "nontrivial_estimate": s.shapes_nontrivial.estimate(),
                    "schedules_level": s.schedules.level, "schedules_estimate": s.schedules.estimate(),
                })
            },
            "verdicts_ok_err_panic": s.verdicts,
            "cross_findings": s.cross.iter().map(|(k, v)| json!({"clause": k, "count": v.0, "example": v.1})).collect::<Vec<_>>(),
            "worker_crashes": crash_lines,
            "known_findings_hit": known_hit,
            "components": crate::doc::components(&a.check),
            "exhaustive": false,
        },
        "assumptions": crate::doc::assumptions(&a.check),
    })
}

pub fn write_line(p: &Path, s: &str) {
    if let Ok(mut f) = std::fs::OpenOptions::new().create(true).append(true).open(p) {
        let _ = f.write_all(s.as_bytes());
    }
}

pub fn dummy(_: &Finding) {}
