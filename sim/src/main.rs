//! scsim — deterministic simulation with fault injection for in-toto-rs (see /verif/DESIGN.md)

#![allow(dead_code)]
mod actor;
mod ceremony;
mod channel;
mod checks;
mod crash;
mod doc;
mod exec;
mod gen;
mod grid;
mod keys;
mod minimise;
mod oracle;
mod pipeline;
mod prng;
mod recorder;
mod refmodel;
mod rules;
mod runner;
mod seams;
mod simio;
mod supply;
mod typed;
mod world;

use checks::Tier;
use std::sync::Mutex;

pub static LAST_PANIC: Mutex<String> = Mutex::new(String::new());

/// Panics inside library calls are caught per thread; the hook only records where they happened.
pub fn install_quiet_panic_hook() {
    std::panic::set_hook(Box::new(|info| {
        let loc = info.location().map(|l| format!("{}:{}", l.file(), l.line())).unwrap_or_default();
        let msg = if let Some(s) = info.payload().downcast_ref::<&str>() {
            s.to_string()
        } else if let Some(s) = info.payload().downcast_ref::<String>() {
            s.clone()
        } else {
            String::new()
        };
        if std::thread::current().name() == Some("main") {
            // a panic of the harness itself, not of a library call in its own thread
            eprintln!("HARNESS PANIC: {} at {}", msg, loc);
        }
        if let Ok(mut g) = LAST_PANIC.lock() {
            *g = format!("{} at {}", msg.chars().take(200).collect::<String>(), loc);
        }
    }));
}

fn arg_after(args: &[String], flag: &str) -> Option<String> {
    args.iter().position(|a| a == flag).and_then(|i| args.get(i + 1).cloned())
}

fn main() {
    let args: Vec<String> = std::env::args().collect();
    let cmd = args.get(1).map(|s| s.as_str()).unwrap_or("");
    let code = match cmd {
        "actor" => actor::actor_main(args.get(2).map(|s| s.as_str()).unwrap_or("")),
        "worker" => {
            // worker <check> <tier> <base> <start> <stride> <runs> <out> <log|nolog>
            let tier = if args[3] == "thorough" { Tier::Thorough } else { Tier::Quick };
            runner::worker_main(
                &args[2],
                tier,
                args[4].parse().unwrap(),
                args[5].parse().unwrap(),
                args[6].parse().unwrap(),
                args[7].parse().unwrap(),
                std::path::Path::new(&args[8]),
                args.get(9).map(|s| s == "log").unwrap_or(false),
            );
            0
        }
        "check" => {
            let check = args.get(2).cloned().unwrap_or_default();
            let tier = match arg_after(&args, "--tier").or_else(|| std::env::var("VERIF_TIER").ok()).as_deref() {
                Some("thorough") => Tier::Thorough,
                _ => Tier::Quick,
            };
            let seed = arg_after(&args, "--seed")
                .or_else(|| std::env::var("VERIF_SEED").ok())
                .and_then(|s| s.parse().ok())
                .unwrap_or(runner::DEFAULT_SEED);
            // (--runs-div N: the tier's number of runs divided by N — a triage aid for trying many seeded changes)
            let div: u64 = arg_after(&args, "--runs-div").and_then(|s| s.parse().ok()).unwrap_or(1).max(1);
            let runs = arg_after(&args, "--runs").and_then(|s| s.parse().ok()).unwrap_or_else(|| (checks::runs_for(&check, tier) / div).max(if checks::runs_for(&check, tier) > 0 { 16 } else { 0 }));
            let workers = arg_after(&args, "--workers").and_then(|s| s.parse().ok()).unwrap_or(16);
            if runs == 0 {
                eprintln!("unknown check {check}");
                std::process::exit(2);
            }
            runner::check_main(runner::CheckArgs {
                check,
                tier,
                seed,
                runs,
                workers,
                keep_log: true,
                write_evidence: !args.iter().any(|a| a == "--no-evidence"),
            })
        }
        "replay-inner" => runner::replay_inner(std::path::Path::new(args.get(2).map(|s| s.as_str()).unwrap_or(""))),
        "replay" => runner::replay_file(std::path::Path::new(args.get(2).map(|s| s.as_str()).unwrap_or(""))),
        "selftest" => match seams::selftest() {
            Ok(()) => {
                let s = exec::Scratch::new("selftest");
                let r = seams::selftest_read(&s.root).and_then(|_| actor::selftest(&s));
                drop(s);
                exec::cleanup_process_scratch();
                match r {
                    Ok(()) => {
                        println!("seams live: clock, hash, read, actor");
                        0
                    }
                    Err(e) => {
                        println!("HARNESS ERROR: {e}");
                        2
                    }
                }
            }
            Err(e) => {
                println!("HARNESS ERROR: {e}");
                2
            }
        },
        "one" => {
            // one <check> <tier> <base> <index>: run a single index in this process and print what happened
            install_quiet_panic_hook();
            let tier = if args[3] == "thorough" { Tier::Thorough } else { Tier::Quick };
            let base: u64 = args[4].parse().unwrap();
            // (further indices may follow: they are run first, in this process, as the history of the one printed)
            let idxs: Vec<u64> = args[5..].iter().filter_map(|a| a.parse().ok()).collect();
            let idx: u64 = *idxs.last().unwrap();
            let sc = exec::Scratch::new("one");
            for h in &idxs[..idxs.len() - 1] {
                let _ = checks::run_one(&args[2], tier, base.wrapping_add(*h), *h, &sc);
                eprintln!("---- history index {h} done");
            }
            let rec = checks::run_one(&args[2], tier, base.wrapping_add(idx), idx, &sc);
            println!("log_digest {:016x} evaluations {} vacuous {} verdicts {:?}", rec.log_digest, rec.evaluations, rec.vacuous, rec.verdicts);
            println!("fired {:?}", rec.fired);
            println!("sample {}", serde_json::to_string_pretty(&rec.sample).unwrap());
            for v in &rec.own { println!("OWN {} {} {}", v.finding.prop, v.finding.clause, v.finding.detail); }
            for v in &rec.cross { println!("CROSS {} {} {}", v.prop, v.clause, v.detail); }
            println!("vacuous_why {:?}", rec.vacuous_why);
            drop(sc);
            exec::cleanup_process_scratch();
            0
        }
        "determinism" => doc::determinism_main(&args),
        _ => {
            eprintln!("usage: scsim check <ID> [--tier quick|thorough] [--seed N] [--runs N] [--workers N] | replay <file> | selftest | determinism");
            2
        }
    };
    if args.get(1).map(|s| s.as_str()) != Some("worker") {
        exec::cleanup_process_scratch();
    }
    std::process::exit(code);
}
