//! Building metadata values through the library's typed API (structs, builders, enums) instead of
//! its parser: what a program that uses the crate to *author* metadata does. Used by the signing
//! ceremony so that serializer-side and parser-side behaviour are exercised against each other.

use crate::ceremony::BodySpec;
use crate::keys::{self, KeySpec};
use crate::world::{actor_cmd, Artifacts, LayoutSpec, LinkSpec, Rule};
use in_toto::crypto::{HashAlgorithm, HashValue, KeyId};
use in_toto::models::byproducts::ByProducts;
use in_toto::models::inspection::Inspection;
use in_toto::models::rule::{Artifact, ArtifactRule};
use in_toto::models::step::{Command, Step};
use in_toto::models::{LayoutMetadata, LinkMetadata, MetadataWrapper, TargetDescription, VirtualTargetPath};
use std::collections::{BTreeMap, HashMap};

fn vtp(s: &str) -> Option<VirtualTargetPath> {
    VirtualTargetPath::new(s.to_string()).ok()
}

pub fn rule(r: &Rule) -> Option<ArtifactRule> {
    if r.len() < 2 {
        return None;
    }
    let p = vtp(&r[1])?;
    match (r[0].as_str(), r.len()) {
        ("CREATE", 2) => Some(ArtifactRule::Create(p)),
        ("DELETE", 2) => Some(ArtifactRule::Delete(p)),
        ("MODIFY", 2) => Some(ArtifactRule::Modify(p)),
        ("ALLOW", 2) => Some(ArtifactRule::Allow(p)),
        ("REQUIRE", 2) => Some(ArtifactRule::Require(p)),
        ("DISALLOW", 2) => Some(ArtifactRule::Disallow(p)),
        ("MATCH", _) => {
            let m = crate::refmodel::parse_rule(r)?;
            if let crate::refmodel::Rule::Match { pattern, src, products, dst, from } = m {
                Some(ArtifactRule::Match {
                    pattern: vtp(&pattern)?,
                    in_src: src,
                    with: if products { Artifact::Products } else { Artifact::Materials },
                    in_dst: dst,
                    from,
                })
            } else {
                None
            }
        }
        _ => None,
    }
}

fn artifacts(a: &Artifacts) -> Option<BTreeMap<VirtualTargetPath, TargetDescription>> {
    let mut out = BTreeMap::new();
    for (p, d) in a {
        let mut td: TargetDescription = HashMap::new();
        for (alg, hex) in d {
            let alg = match alg.as_str() {
                "sha256" => HashAlgorithm::Sha256,
                "sha512" => HashAlgorithm::Sha512,
                _ => return None,
            };
            td.insert(alg, HashValue::new(data_encoding::HEXLOWER.decode(hex.as_bytes()).ok()?));
        }
        out.insert(vtp(p)?, td);
    }
    Some(out)
}

pub fn link(l: &LinkSpec) -> Option<LinkMetadata> {
    let mut by = ByProducts::new();
    if let Some(r) = l.retval {
        by = by.set_return_value(i32::try_from(r).ok()?);
    }
    if let Some(s) = &l.stderr {
        by = by.set_stderr(s.clone());
    }
    if let Some(s) = &l.stdout {
        by = by.set_stdout(s.clone());
    }
    for (k, v) in &l.other {
        by = by.set_other_field(k.clone(), v.clone());
    }
    LinkMetadata::new(l.name.clone(), artifacts(&l.materials)?, artifacts(&l.products)?, l.env.clone(), by, Command::from(l.command.clone())).ok()
}

pub fn layout(l: &LayoutSpec, keyspecs: &[KeySpec]) -> Option<LayoutMetadata> {
    let expires = chrono::DateTime::parse_from_rfc3339(&l.expires).ok()?.with_timezone(&chrono::Utc);
    let mut keys_map = HashMap::new();
    for k in &l.key_table {
        let key = keys::key(keyspecs[*k]);
        keys_map.insert(key.public.key_id().clone(), key.public.clone());
    }
    let mut steps = vec![];
    for s in &l.steps {
        let mut pub_keys: Vec<KeyId> = vec![];
        for k in &s.pubkeys {
            pub_keys.push(keys::key(keyspecs[*k]).public.key_id().clone());
        }
        steps.push(Step {
            typ: "step".into(),
            threshold: s.threshold,
            name: s.name.clone(),
            expected_materials: s.exp_mat.iter().map(rule).collect::<Option<Vec<_>>>()?,
            expected_products: s.exp_prod.iter().map(rule).collect::<Option<Vec<_>>>()?,
            pub_keys,
            expected_command: Command::from(s.cmd.clone()),
        });
    }
    let mut inspect = vec![];
    for i in &l.inspect {
        inspect.push(Inspection {
            typ: "inspection".into(),
            name: i.name.clone(),
            expected_materials: i.exp_mat.iter().map(rule).collect::<Option<Vec<_>>>()?,
            expected_products: i.exp_prod.iter().map(rule).collect::<Option<Vec<_>>>()?,
            run: Command::from(actor_cmd(&i.actor)),
        });
    }
    Some(LayoutMetadata::new(expires, l.readme.clone(), keys_map, steps, inspect))
}

pub fn body(b: &BodySpec, keyspecs: &[KeySpec]) -> Option<MetadataWrapper> {
    match b {
        BodySpec::Link(l) => link(l).map(MetadataWrapper::Link),
        BodySpec::Layout(l) => layout(l, keyspecs).map(MetadataWrapper::Layout),
    }
}
