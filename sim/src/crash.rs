//! C14: untrusted bytes may make verification fail but never crash it. Every library call runs under
//! catch_unwind in a watched worker process; aborts / stack overflows / hangs kill the worker and are
//! attributed by the parent to the case that was running (its trace is written before it starts).
//!
//! Case kinds per seed: damaged link directory (storage faults before any signature is checked),
//! Byzantine-but-signed odd content, faulting streams into decoders and the digest routine,
//! damaged key files into the key importers.

use crate::checks::{exec_supply, site_of, RunRecord, Tier, Trace, Violation};
use crate::exec::{self, Scratch};
use crate::gen::{self, GenOpts, F};
use crate::keys::{self, KeyKind, KeySpec};
use crate::oracle::Finding;
use crate::prng::{Digest, Rng};
use crate::simio::SimReader;
use crate::world::*;
use in_toto::crypto::{HashAlgorithm, PrivateKey, PublicKey, SignatureScheme};
use in_toto::interchange::{DataInterchange, Json};
use in_toto::models::Metablock;
use serde::{Deserialize, Serialize};
use serde_json::json;

#[derive(Clone, Debug, Serialize, Deserialize, PartialEq)]
pub struct BytesTrace {
    /// which entry point consumes the bytes
    pub entry: String,
    pub data_hex: String,
    pub scheme: String,
    pub sched_seed: u64,
    pub chunked: bool,
    pub eintr_pct: u64,
    pub fail_at: Option<usize>,
    pub labels: Vec<String>,
}

fn scheme_of(s: &str) -> SignatureScheme {
    match s {
        "ed25519" => SignatureScheme::Ed25519,
        "rsassa-pss-sha256" => SignatureScheme::RsaSsaPssSha256,
        "rsassa-pss-sha512" => SignatureScheme::RsaSsaPssSha512,
        "ecdsa-sha2-nistp256" => SignatureScheme::EcdsaP256Sha256,
        o => SignatureScheme::Unknown(o.to_string()),
    }
}

/// Execute one byte-level case; returns Ok(description) or the panic text.
pub fn exec_bytes(t: &BytesTrace) -> Result<String, String> {
    let data = data_encoding::HEXLOWER.decode(t.data_hex.as_bytes()).unwrap_or_default();
    let t2 = t.clone();
    exec::silenced(|| {
        exec::in_fresh_thread(t.sched_seed, move || -> String {
            let scheme = scheme_of(&t2.scheme);
            match t2.entry.as_str() {
                "from_pkcs8" => format!("{:?}", PrivateKey::from_pkcs8(&data, scheme).map(|k| k.key_id().clone()).map_err(|e| exec::err_class(&e))),
                "from_ed25519" => format!("{:?}", PrivateKey::from_ed25519(&data).map(|k| k.key_id().clone()).map_err(|e| exec::err_class(&e))),
                "from_spki" => format!("{:?}", PublicKey::from_spki(&data, scheme).map(|k| k.key_id().clone()).map_err(|e| exec::err_class(&e))),
                "from_pem_spki" => {
                    let s = String::from_utf8_lossy(&data).to_string();
                    format!("{:?}", PublicKey::from_pem_spki(&s, scheme).map(|k| k.key_id().clone()).map_err(|e| exec::err_class(&e)))
                }
                "pubkey_json" => format!("{:?}", serde_json::from_slice::<PublicKey>(&data).map(|k| k.key_id().clone()).map_err(|e| e.to_string().len())),
                "metablock_from_slice" => format!("{:?}", Json::from_slice::<Metablock>(&data).map(|m| m.signatures.len()).map_err(|e| exec::err_class(&e))),
                "metablock_from_reader" => {
                    let rd = SimReader::new(&data, t2.sched_seed, t2.chunked, t2.eintr_pct, t2.fail_at);
                    format!("{:?}", Json::from_reader::<_, Metablock>(rd).map(|m| m.signatures.len()).map_err(|e| exec::err_class(&e)))
                }
                "metablock_verify" => {
                    // parse, then verify against every key that the document itself names (none is trusted)
                    match serde_json::from_slice::<Metablock>(&data) {
                        Ok(m) => {
                            let ks: Vec<PublicKey> = vec![];
                            let r = m.verify(1, ks.iter());
                            let ids: Vec<String> = m.signatures.iter().map(|s| s.key_id().prefix()).collect();
                            format!("{:?} {:?}", r.is_ok(), ids)
                        }
                        Err(e) => format!("parse error {}", e.to_string().len()),
                    }
                }
                "statement_from_slice" => format!("{:?}", serde_json::from_slice::<in_toto::models::StatementWrapper>(&data).map(|_| 0).map_err(|e| e.to_string().len())),
                "predicate_from_slice" => format!("{:?}", serde_json::from_slice::<in_toto::models::PredicateWrapper>(&data).map(|_| 0).map_err(|e| e.to_string().len())),
                "layout_selfverify" => {
                    // a layout block checked against the keys its own key table names (nothing is trusted)
                    match serde_json::from_slice::<Metablock>(&data) {
                        Ok(m) => match &m.metadata {
                            in_toto::models::MetadataWrapper::Layout(l) => {
                                let ks: Vec<PublicKey> = l.keys.values().cloned().collect();
                                format!("{:?}", m.verify(1, ks.iter()).is_ok())
                            }
                            in_toto::models::MetadataWrapper::Link(_) => "link".to_string(),
                        },
                        Err(e) => format!("parse error {}", e.to_string().len()),
                    }
                }
                "calculate_hashes" => {
                    let rd = SimReader::new(&data, t2.sched_seed, t2.chunked, t2.eintr_pct, t2.fail_at);
                    format!(
                        "{:?}",
                        in_toto::crypto::calculate_hashes(rd, &[HashAlgorithm::Sha256, HashAlgorithm::Sha512]).map(|(n, _)| n).map_err(|e| exec::err_class(&e))
                    )
                }
                other => format!("unknown entry {other}"),
            }
        })
    })
}

pub fn judge_bytes(t: &BytesTrace, rec: &mut RunRecord, seed: u64, index: u64, prop: &str) -> Vec<Finding> {
    rec.evaluations += 1;
    let r = exec_bytes(t);
    let mut d = Digest::new();
    d.update(&rec.log_digest.to_le_bytes());
    d.str(&t.entry);
    let mut shape = Digest::new();
    shape.str(&t.entry);
    for l in &t.labels {
        shape.str(l);
        rec.fired.push(l.clone());
    }
    let mut out = vec![];
    match r {
        Ok(desc) => {
            let masked: String = desc.chars().map(|c| if c.is_ascii_digit() { '#' } else { c }).collect();
            d.str(&masked);
            shape.str(if desc.starts_with("Ok") { "ok" } else { "err" });
            rec.verdicts[if desc.starts_with("Ok") { 0 } else { 1 }] += 1;
        }
        Err(p) => {
            d.str("panic");
            shape.str("panic");
            rec.verdicts[2] += 1;
            let f = Finding { prop: "C14".into(), clause: "panic-in-entry-point".into(), detail: format!("{}: {p}", t.entry) };
            if prop == "C14" {
                rec.own.push(Violation { seed, index, site: site_of(&f, &t.labels), finding: f.clone(), trace: Trace::Bytes(t.clone()) });
            } else {
                rec.cross.push(f.clone());
            }
            out.push(f);
        }
    }
    rec.log_digest = d.finish();
    rec.shapes.push((shape.finish() ^ (data_len_class(t) as u64), true));
    rec.schedules.push(t.sched_seed);
    if rec.sample.is_none() {
        rec.sample = Some(json!({"seed": seed, "entry": t.entry, "labels": t.labels, "bytes": t.data_hex.len() / 2, "chunked": t.chunked, "eintr_pct": t.eintr_pct, "fail_at": t.fail_at}));
    }
    out
}

fn data_len_class(t: &BytesTrace) -> usize {
    (t.data_hex.len() / 2).min(4096) / 16
}

fn damage(r: &mut Rng, data: &mut Vec<u8>, labels: &mut Vec<String>) {
    let n = 1 + r.weighted(&[70, 20, 10]);
    for _ in 0..n {
        if data.is_empty() {
            return;
        }
        match r.below(5) {
            0 => {
                let keep = r.idx(data.len());
                data.truncate(keep);
                labels.push("TRUNC".into());
            }
            1 | 2 => {
                let b = r.idx(data.len() * 8);
                data[b / 8] ^= 1 << (b % 8);
                labels.push("FLIP".into());
            }
            3 => {
                let pool: [&[u8]; 7] = [b"\0", b"\xc3\xa9", b"\xf0\x9f\x98\x80", b"}", b"\"", b"\xff\xfe", b"\x30\x82\xff\xff"];
                let p = r.idx(data.len());
                for (i, b) in r.pick(&pool[..]).iter().enumerate() {
                    if p + i < data.len() {
                        data[p + i] = *b;
                    }
                }
                labels.push("OVERWRITE".into());
            }
            _ => {
                // a length octet set to an extreme
                let p = r.idx(data.len());
                data[p] = *r.pick(&[0u8, 0x7f, 0x80, 0x81, 0x84, 0xff]);
                labels.push("LENGTH-OCTET".into());
            }
        }
    }
}

fn key_file_case(r: &mut Rng, seed: u64) -> BytesTrace {
    let kinds = [KeyKind::Ed, KeyKind::EdPk8, KeyKind::Ecdsa, KeyKind::Rsa2048S256, KeyKind::Rsa4096S512];
    let kind = *r.pick(&kinds);
    let k = keys::key(KeySpec { kind, seed: r.next() >> 16 });
    let scheme = match kind {
        KeyKind::Ed | KeyKind::EdPk8 => "ed25519",
        KeyKind::Ecdsa | KeyKind::EcdsaBare => "ecdsa-sha2-nistp256",
        KeyKind::Rsa2048S256 | KeyKind::Rsa4096S256 => "rsassa-pss-sha256",
        KeyKind::RsaUnknown => "rsassa-pss-sha384",
        _ => "rsassa-pss-sha512",
    };
    let (entry, mut data): (&str, Vec<u8>) = match r.below(5) {
        0 => ("from_pkcs8", keys::pkcs8_of(k.spec)),
        1 => ("from_spki", k.public.as_spki().unwrap_or_default()),
        2 => {
            let der = k.public.as_spki().unwrap_or_default();
            let b64 = data_encoding::BASE64.encode(&der);
            let mut pem = String::from("-----BEGIN PUBLIC KEY-----\n");
            for c in b64.as_bytes().chunks(64) {
                pem.push_str(std::str::from_utf8(c).unwrap());
                pem.push('\n');
            }
            pem.push_str("-----END PUBLIC KEY-----\n");
            ("from_pem_spki", pem.into_bytes())
        }
        3 => {
            // the key object as JSON; now and then with its key material a few characters short or long
            let mut j = k.public_json();
            if r.chance(1, 2) {
                if let Some(p) = j["keyval"]["public"].as_str().map(|s| s.to_string()) {
                    let np = match r.below(4) {
                        0 => p[..p.len().saturating_sub(2)].to_string(),
                        1 => format!("{p}00"),
                        2 => String::new(),
                        _ => p[..p.len().saturating_sub(1)].to_string(),
                    };
                    j["keyval"]["public"] = serde_json::json!(np);
                }
            }
            ("pubkey_json", serde_json::to_vec(&j).unwrap())
        }
        _ => ("from_ed25519", r.bytes(64)),
    };
    let mut labels = vec![format!("keyfile:{entry}")];
    // also offer the right bytes under a wrong scheme now and then
    let scheme = if r.chance(1, 6) { *r.pick(&["ed25519", "rsassa-pss-sha256", "ecdsa-sha2-nistp256", "weird"]) } else { scheme };
    if r.chance(9, 10) {
        damage(r, &mut data, &mut labels);
    }
    BytesTrace { entry: entry.into(), data_hex: data_encoding::HEXLOWER.encode(&data), scheme: scheme.into(), sched_seed: seed, chunked: false, eintr_pct: 0, fail_at: None, labels }
}

fn stream_case(r: &mut Rng, seed: u64, doc: Vec<u8>) -> BytesTrace {
    let mut data = doc;
    let mut labels = vec![];
    let entry = *r.pick(&["metablock_from_reader", "metablock_from_slice", "metablock_verify", "layout_selfverify", "statement_from_slice", "predicate_from_slice", "calculate_hashes"]);
    if entry == "statement_from_slice" || entry == "predicate_from_slice" {
        let (kind, v) = loop {
            let sd = seed ^ r.next();
            let (k, v) = crate::channel::gen_document(r, sd);
            if (entry == "statement_from_slice" && k == "statement") || (entry == "predicate_from_slice" && k == "predicate") {
                break (k, v);
            }
        };
        let _ = kind;
        data = serde_json::to_vec(&v).unwrap_or_default();
    }
    if entry == "calculate_hashes" {
        let n = *r.pick(&[0usize, 1, 1023, 1024, 1025, 2048, 8192, 100_000]);
        data = r.bytes(n);
    } else if r.chance(4, 5) {
        damage(r, &mut data, &mut labels);
    }
    let chunked = r.chance(3, 4);
    let eintr_pct = *r.pick(&[0u64, 0, 10, 50]);
    let fail_at = if r.chance(1, 3) && !data.is_empty() { Some(r.idx(data.len() + 1)) } else { None };
    if chunked {
        labels.push("CHUNK".into());
    }
    if eintr_pct > 0 {
        labels.push("EINTR".into());
    }
    if fail_at.is_some() {
        labels.push("EIO@offset".into());
    }
    labels.push(format!("stream:{entry}"));
    BytesTrace { entry: entry.into(), data_hex: data_encoding::HEXLOWER.encode(&data), scheme: "ed25519".into(), sched_seed: seed, chunked, eintr_pct, fail_at, labels }
}

/// Byzantine-but-signed / structurally odd content.
fn odd_content(t: &mut crate::supply::SupplyTrace, r: &mut Rng) -> String {
    let which = r.below(12);
    let nfiles = t.root.files.len();
    match which {
        0 => {
            // a signature key id with a two-byte character across byte 8 (still 64 bytes long)
            if nfiles == 0 {
                return "none".into();
            }
            let fi = r.idx(nfiles);
            let pre = r.idx(8);
            let id = match r.below(3) {
                0 => format!("{}\u{e9}{}", "a".repeat(pre), "b".repeat(64 - pre - 2)),
                // other lengths than 64, other letter case
                1 => r.pick(&["", "a", "abc", "1234567", "12345678", "123456789", "\u{e9}\u{e9}\u{e9}", "\u{20ac}\u{20ac}"]).to_string(),
                _ => match r.below(3) {
                    0 => "c".repeat(63),
                    1 => "d".repeat(65),
                    _ => "ABCDEF0123456789".repeat(4),
                },
            };
            let doc = match &mut t.root.files[fi].body {
                Body::Link(_) => &mut t.root.files[fi].doc,
                Body::Layout(inner) => &mut inner.doc,
            };
            doc.ops.push(DocOp::Set { ptr: "/signatures/0/keyid".into(), value: json!(id) });
            "ODD-KEYID-NONASCII".into()
        }
        1 | 2 => {
            // validly signed link with non-normalized paths in materials and products
            let paths = ["x/../y", "./a", "a//b", "/abs/p", "../up", "a/./b", "", ".", "a/", "é/ü", "dist/.", "src/./.", "/.", "..", "a/..", "./", "//", "a/../..", "hello.", "...", "a/.../b"];
            let mut any = false;
            for f in t.root.files.iter_mut() {
                if let Body::Link(l) = &mut f.body {
                    if r.chance(1, 2) {
                        let p = r.pick(&paths).to_string();
                        l.materials.insert(p.clone(), gen::digest_of(31337, false));
                        if which == 1 {
                            l.products.insert(p, gen::digest_of(31337, false));
                        } else {
                            l.products.insert(p, gen::digest_of(31338, false));
                        }
                        any = true;
                    }
                }
            }
            if any { "ODD-PATHS".into() } else { "none".into() }
        }
        3 => {
            let si = r.idx(t.root.layout.steps.len().max(1));
            if let Some(s) = t.root.layout.steps.get_mut(si) {
                s.threshold = *r.pick(&[0u32, u32::MAX, u32::MAX - 1, 1 << 31]);
            }
            "ODD-THRESHOLD".into()
        }
        4 => {
            let names = ["", "*", "[", "a/b", "..", "é", "a.b", "?", "{", " ", "a\nb"];
            let si = r.idx(t.root.layout.steps.len().max(1));
            let nn = r.pick(&names).to_string();
            if let Some(s) = t.root.layout.steps.get_mut(si) {
                let old = s.name.clone();
                s.name = nn.clone();
                for f in t.root.files.iter_mut() {
                    if let Some(rest) = f.name.strip_prefix(&format!("{}.", old)) {
                        let candidate = format!("{}.{}", nn, rest);
                        if !candidate.contains('/') && !candidate.contains('\n') && !nn.is_empty() {
                            f.name = candidate;
                        }
                    }
                }
            }
            "ODD-STEPNAME".into()
        }
        5 => {
            let pats = ["[", "**a", "", "\\", "a**", "[!", "[]", "***", "[z-a]", "é*", "ÿ*", "out/文*", "リリース/ビルド?.zip", "\u{100}[ab]", "\u{10ffff}*", "x\u{ff}?", "*\u{0}", "a/\u{7f}*"];
            let si = r.idx(t.root.layout.steps.len().max(1));
            if let Some(s) = t.root.layout.steps.get_mut(si) {
                let kind = *r.pick(&["ALLOW", "DISALLOW", "REQUIRE", "CREATE", "DELETE", "MODIFY"]);
                let rule = vec![kind.to_string(), r.pick(&pats).to_string()];
                if r.chance(1, 2) {
                    s.exp_mat.insert(0, rule);
                } else {
                    s.exp_prod.insert(0, rule);
                }
            }
            "ODD-PATTERN".into()
        }
        6 => {
            for f in t.root.files.iter_mut() {
                if let Body::Link(l) = &mut f.body {
                    l.retval = Some(*r.pick(&[i32::MIN as i64, i32::MAX as i64, -1, i32::MAX as i64 + 1, i64::MIN]));
                }
            }
            "ODD-RETVAL".into()
        }
        7 => {
            // empty collections everywhere
            t.root.layout.steps.clear();
            t.root.files.clear();
            if r.chance(1, 2) {
                t.root.layout.key_table.clear();
            }
            if r.chance(1, 2) {
                // no steps, but an inspection that succeeds
                t.root.layout.inspect = vec![InspSpec {
                    name: "lone".into(),
                    exp_mat: vec![],
                    exp_prod: if r.chance(1, 2) { vec![] } else { vec![vec!["ALLOW".into(), "*".into()]] },
                    actor: ActorScript { id: "root#lone".into(), ops: vec![], stdout: vec![], stderr: vec![], exit: ExitSpec::Code(0) },
                }];
            } else {
                t.root.layout.inspect.clear();
            }
            "ODD-EMPTY-LAYOUT".into()
        }
        8 => {
            // a delegated level that refers to itself: the functionary's evidence for step s is a
            // layout that again has a step s for which he is authorized, and its sub-directory is a
            // symbolic link back to the directory it lies in
            if t.root.layout.steps.is_empty() || t.root.files.is_empty() {
                return "none".into();
            }
            let fi = r.idx(t.root.files.len());
            let (k, fname) = match (&t.root.files[fi].body, t.root.files[fi].doc.signers.first()) {
                (Body::Link(_), Some(k)) => (*k, t.root.files[fi].name.clone()),
                _ => return "none".into(),
            };
            // <step>.<key-id prefix>.link (the step name may have dots of its own)
            let sname = fname.trim_end_matches(".link").rsplit_once('.').map(|x| x.0).unwrap_or("").to_string();
            let inner = LevelSpec {
                layout: LayoutSpec {
                    expires: t.root.layout.expires.clone(),
                    readme: String::new(),
                    key_table: vec![k],
                    steps: vec![StepSpec { name: sname.clone(), threshold: 1, pubkeys: vec![k], exp_mat: vec![], exp_prod: vec![], cmd: vec![] }],
                    inspect: vec![],
                },
                doc: DocSpec { signers: vec![k], ops: vec![], pretty: false },
                files: vec![],
                subdir: String::new(),
            };
            t.root.files[fi].body = Body::Layout(Box::new(inner));
            let dir = fname.trim_end_matches(".link").to_string();
            t.file_faults.push(FileFault { path: dir, kind: FileFaultKind::NewSymlink { target: ".".into() } });
            "ODD-SELF-DELEGATION".into()
        }
        9 => {
            let exps = ["9999-12-31T23:59:60Z", "0000-01-01T00:00:00Z", "2026-02-30T00:00:00Z", "2026-01-01T24:00:00Z", "+10000-01-01T00:00:00Z", "2026-01-01T00:00:00+24:00", "2026-01-01T00:00:00.Z", "2026-01-01", ""];
            t.root.layout.expires = r.pick(&exps).to_string();
            "ODD-EXPIRES".into()
        }
        10 => {
            // MATCH rules pointing at odd places
            let si = r.idx(t.root.layout.steps.len().max(1));
            if let Some(s) = t.root.layout.steps.get_mut(si) {
                let from = if r.chance(1, 2) { s.name.clone() } else { "no-such-step".to_string() };
                let rule: Rule = vec!["MATCH".into(), r.pick(&["*", "[", "", "x/../y"]).to_string(), "IN".into(), r.pick(&["", "/", "..", "a/", "é"]).to_string(), "WITH".into(), "PRODUCTS".into(), "IN".into(), r.pick(&["", "/", "..", "b//"]).to_string(), "FROM".into(), from];
                s.exp_mat.insert(0, rule.clone());
                s.exp_prod.insert(0, rule);
            }
            "ODD-MATCH".into()
        }
        _ => {
            // a link whose name / command / byproducts carry hostile text
            for f in t.root.files.iter_mut() {
                if let Body::Link(l) = &mut f.body {
                    l.stdout = Some(gen::text(r));
                    l.stderr = Some(gen::text(r));
                    l.command = vec![gen::text(r), gen::text(r)];
                    l.other.insert(gen::text(r), gen::text(r));
                }
            }
            "ODD-TEXT".into()
        }
    }
}

pub fn run_c14(tier: Tier, seed: u64, index: u64, scratch: &Scratch, rec: &mut RunRecord) {
    let mut r = Rng::stream(seed, "faults");
    let kind = r.weighted(&[42, 24, 14, 14, 6]);
    if kind == 4 {
        // a recorded tree with things that are not regular files (named pipe, link to it): recording must
        // terminate and must not crash; what it records is C18's business
        let mut t = crate::recorder::gen_trace(seed, tier);
        if t.stream.is_none() {
            let d = t.tree.iter().find_map(|op| if let crate::recorder::TreeOp::Dir(d) = op { Some(d.clone()) } else { None }).unwrap_or_else(|| "d".into());
            t.tree.push(crate::recorder::TreeOp::Fifo(format!("{d}/pipe")));
            t.tree.push(crate::recorder::TreeOp::Link { path: format!("{d}/to-pipe"), target: "pipe".into(), absolute: false });
            if r.chance(1, 2) {
                t.tree.push(crate::recorder::TreeOp::Link { path: format!("{d}/to-pipe-abs"), target: format!("{d}/pipe"), absolute: true });
            }
            t.labels.push("FIFO-IN-TREE".into());
        }
        write_current(scratch, &Trace::Recorder(t.clone()));
        let before = rec.own.len();
        let _ = crate::recorder::replay("C14", &t, scratch, rec);
        let _ = before;
        return;
    }
    match kind {
        0 | 1 => {
            let mut opts = GenOpts { ed_only_pct: if tier == Tier::Quick { 100 } else { 85 }, delegation_pct: 20, max_depth: 2, ..GenOpts::default() };
            // one world in ten has inspections whose commands print unusual output — multi-byte text of a length
            // around the places where a program might cut it (a character then straddles the cut), bytes that are
            // not UTF-8 — and end with a failure status or a signal now and then
            let mut ir = Rng::stream(seed, "c14-inspection-output");
            let odd_inspections = ir.chance(1, 10);
            if odd_inspections {
                opts.inspections = true;
                opts.delegation_pct = 10;
            }
            let (mut t, plan) = gen::baseline(seed, &opts);
            if odd_inspections && !t.root.layout.inspect.is_empty() {
                let cuts = [16usize, 32, 64, 72, 80, 100, 120, 128, 160, 200, 240, 255, 256, 300, 400, 500, 512, 800, 1000, 1024, 2000, 2048, 4096, 8192];
                for i in t.root.layout.inspect.iter_mut() {
                    let mut mk = |r: &mut Rng| -> Vec<u8> {
                        match r.below(8) {
                            0 => vec![],
                            1 => vec![0xff, 0xfe, 0x00, 0xc3],
                            _ => {
                                let unit = ["\u{e9}", "\u{4e16}\u{754c}", "\u{1f600}", "a\u{fc}\u{20ac}"][r.idx(4)];
                                let n = *r.pick(&cuts) + r.idx(9);
                                let mut v = "x".repeat(r.idx(4));
                                while v.len() < n {
                                    v.push_str(unit);
                                }
                                v.into_bytes()
                            }
                        }
                    };
                    i.actor.stdout = mk(&mut ir);
                    i.actor.stderr = mk(&mut ir);
                    i.actor.exit = match ir.weighted(&[45, 40, 10, 5]) {
                        0 => ExitSpec::Code(0),
                        1 => ExitSpec::Code(*ir.pick(&[1, 2, 3, 126, 255])),
                        2 => ExitSpec::Signal(9),
                        _ => ExitSpec::NotFound,
                    };
                }
                t.labels.push("ODD-INSPECTION-OUTPUT".into());
            }
            // now and then the damaged directory is an update, in place, of one the verifier has seen intact a
            // moment ago (same paths, same inodes), delivered with time stamps as they come / preserved / older
            // than before: what an earlier call left behind in the process must not make the next one crash
            let mut er = Rng::stream(seed, "c14-environment");
            if er.chance(1, 4) {
                t.in_place = true;
                match er.below(3) {
                    0 => {}
                    1 => t.fixed_mtime = true,
                    _ => t.mtime_backwards = true,
                }
                t.same_thread = er.chance(1, 2);
                let mut t0 = t.clone();
                t0.labels.push("INTACT-FIRST".into());
                write_current(scratch, &Trace::Supply(t0.clone()));
                exec_supply("C14", &t0, scratch, rec, seed, index);
                t.labels.push("UPDATED-IN-PLACE".into());
                if t.mtime_backwards {
                    t.labels.push("MTIME-BACKWARDS".into());
                }
            }
            if kind == 0 {
                // storage faults on the link directory, before any signature is checked
                let n = 1 + r.weighted(&[40, 30, 20, 10]);
                let fs = [F::ByteFlip, F::ByteTrunc, F::ByteOverwrite, F::Garbage, F::IsDir, F::Dangling, F::DupFile, F::OddFileName, F::OddFileName, F::Fifo, F::ByteOverwrite, F::ByteFlip];
                let mut applied = 0;
                let mut tries = 0;
                while applied < n && tries < 10 {
                    tries += 1;
                    if gen::apply_fault(&mut t, &plan, *r.pick(&fs), &mut r, false) {
                        applied += 1;
                    }
                }
            } else {
                let l = odd_content(&mut t, &mut r);
                t.labels.push(l);
                if r.chance(1, 3) {
                    let l = odd_content(&mut t, &mut r);
                    t.labels.push(l);
                }
            }
            // now and then the clock crosses the expiry between two reads of the same call
            if r.chance(1, 6) {
                if let Some((e, _)) = crate::refmodel::rfc3339_instant(&t.root.layout.expires) {
                    let start = t.clock[0];
                    if e >= start.0 {
                        t.clock = vec![start, (e + 1, 0), (e + 86_400, 0)];
                        t.labels.push("JUMP-ACROSS-EXPIRY".into());
                    }
                }
            }
            t.tz = if r.chance(1, 4) { Some(r.pick(&["XYZ10", "ABC-14", "garbage", ""]).to_string()) } else { None };
            write_current(scratch, &Trace::Supply(t.clone()));
            exec_supply("C14", &t, scratch, rec, seed, index);
        }
        2 => {
            // a real signed document as the stream's payload
            let opts = GenOpts { ed_only_pct: 100, delegation_pct: 0, max_steps: 2, ..GenOpts::default() };
            let (t, _) = gen::baseline(seed, &opts);
            let (stored, _) = build(&t.root, &t.keys, &[]);
            let doc = stored[r.idx(stored.len())].bytes.clone();
            let bt = stream_case(&mut r, seed, doc);
            write_current(scratch, &Trace::Bytes(bt.clone()));
            judge_bytes(&bt, rec, seed, index, "C14");
        }
        _ => {
            let bt = key_file_case(&mut r, seed);
            write_current(scratch, &Trace::Bytes(bt.clone()));
            judge_bytes(&bt, rec, seed, index, "C14");
        }
    }
}

/// The trace of the case about to run, so that the parent can attribute a worker crash.
pub fn write_current(scratch: &Scratch, t: &Trace) {
    let p = std::path::PathBuf::from(format!("/dev/shm/scsim-current-{}.json", std::process::id()));
    let _ = std::fs::write(p, serde_json::to_vec(t).unwrap_or_default());
    let _ = scratch;
}

/// Cheap variant for the hot path: the trace is serialized without going through the `Trace` enum's clone.
pub fn write_current_supply(t: &crate::supply::SupplyTrace) {
    let p = format!("/dev/shm/scsim-current-{}.json", std::process::id());
    if let Ok(mut v) = serde_json::to_vec(t) {
        let mut out = Vec::with_capacity(v.len() + 16);
        out.extend_from_slice(b"{\"Supply\":");
        out.append(&mut v);
        out.push(b'}');
        let _ = std::fs::write(p, out);
    }
}

pub fn write_current_trace(t: &Trace) {
    let p = format!("/dev/shm/scsim-current-{}.json", std::process::id());
    let _ = std::fs::write(p, serde_json::to_vec(t).unwrap_or_default());
}

pub fn replay(prop: &str, t: &BytesTrace, rec: &mut RunRecord) -> Vec<Finding> {
    judge_bytes(t, rec, 0, 0, prop).into_iter().filter(|f| f.prop == prop).collect()
}

pub fn minimise(prop: &str, clause: &str, t: &BytesTrace) -> (BytesTrace, bool) {
    let mut cur = t.clone();
    let mut changed = false;
    let still = |c: &BytesTrace| {
        let mut rec = RunRecord::default();
        judge_bytes(c, &mut rec, 0, 0, prop).iter().any(|f| f.prop == prop && f.clause == clause)
    };
    // shrink the data from the end and the front, drop stream faults
    for _ in 0..64 {
        let mut progress = false;
        let n = cur.data_hex.len() / 2;
        let mut cands = vec![];
        if n > 0 {
            for cut in [n / 2, n / 4, 1] {
                if cut > 0 && cut <= n {
                    let mut c = cur.clone();
                    c.data_hex = cur.data_hex[..(n - cut) * 2].to_string();
                    cands.push(c);
                    let mut c = cur.clone();
                    c.data_hex = cur.data_hex[cut * 2..].to_string();
                    cands.push(c);
                }
            }
        }
        if cur.chunked || cur.eintr_pct > 0 || cur.fail_at.is_some() {
            let mut c = cur.clone();
            c.chunked = false;
            c.eintr_pct = 0;
            c.fail_at = None;
            cands.push(c);
        }
        for c in cands {
            if c != cur && still(&c) {
                cur = c;
                progress = true;
                changed = true;
                break;
            }
        }
        if !progress {
            break;
        }
    }
    (cur, changed)
}
