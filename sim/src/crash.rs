//! stub
use crate::checks::{RunRecord, Tier};
use crate::exec::Scratch;
pub fn run_c14(t: Tier, s: u64, i: u64, sc: &Scratch, r: &mut RunRecord) { crate::checks::run_supply_check("C14", t, s, i, sc, r) }
