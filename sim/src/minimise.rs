//! Delta debugging on explicit traces: drop faults, drop files, steps, ops, repetitions, simplify
//! text — keeping a candidate only while the same clause of the same property still fires.

use crate::checks::{replay_trace, Trace};
use crate::exec::Scratch;
use crate::supply::SupplyTrace;
use crate::world::*;

fn still(prop: &str, clause: &str, t: &Trace, scratch: &Scratch) -> bool {
    replay_trace(prop, t, scratch).iter().any(|f| f.prop == prop && f.clause == clause)
}

fn levels_mut<'a>(l: &'a mut LevelSpec, path: &[usize]) -> Option<&'a mut LevelSpec> {
    let mut cur = l;
    for i in path {
        match cur.files.get_mut(*i).map(|f| &mut f.body) {
            Some(Body::Layout(inner)) => cur = inner,
            _ => return None,
        }
    }
    Some(cur)
}

fn level_paths(l: &LevelSpec, pre: Vec<usize>, out: &mut Vec<Vec<usize>>) {
    out.push(pre.clone());
    for (i, f) in l.files.iter().enumerate() {
        if let Body::Layout(inner) = &f.body {
            let mut p = pre.clone();
            p.push(i);
            level_paths(inner, p, out);
        }
    }
}

fn supply_candidates(t: &SupplyTrace) -> Vec<SupplyTrace> {
    let mut out = vec![];
    for i in 0..t.file_faults.len() {
        let mut c = t.clone();
        c.file_faults.remove(i);
        out.push(c);
    }
    if t.hash_seeds.len() > 2 {
        let mut c = t.clone();
        c.hash_seeds.truncate(t.hash_seeds.len() / 2);
        out.push(c);
    }
    if t.hash_seeds.len() == 2 {
        let mut c = t.clone();
        c.hash_seeds.truncate(1);
        out.push(c);
    }
    if t.clock.len() > 1 {
        let mut c = t.clone();
        c.clock.truncate(1);
        out.push(c);
    }
    if t.arrivals.len() > 1 {
        let mut c = t.clone();
        c.arrivals.truncate(1);
        out.push(c);
    }
    for i in 0..t.work_files.len() {
        let mut c = t.clone();
        c.work_files.remove(i);
        out.push(c);
    }
    let mut paths = vec![];
    level_paths(&t.root, vec![], &mut paths);
    for p in &paths {
        let lv = {
            let mut c = t.clone();
            levels_mut(&mut c.root, p).map(|l| l.clone())
        };
        let lv = match lv {
            Some(l) => l,
            None => continue,
        };
        // drop files
        for fi in 0..lv.files.len() {
            let mut c = t.clone();
            if let Some(l) = levels_mut(&mut c.root, p) {
                l.files.remove(fi);
                out.push(c);
            }
        }
        // drop steps (with their files and the MATCH rules that refer to them)
        for si in 0..lv.layout.steps.len() {
            let mut c = t.clone();
            if let Some(l) = levels_mut(&mut c.root, p) {
                let name = l.layout.steps[si].name.clone();
                l.layout.steps.remove(si);
                l.files.retain(|f| !f.name.starts_with(&format!("{}.", name)));
                for s in l.layout.steps.iter_mut() {
                    s.exp_mat.retain(|r| r.last() != Some(&name));
                    s.exp_prod.retain(|r| r.last() != Some(&name));
                }
                out.push(c);
            }
        }
        for ii in 0..lv.layout.inspect.len() {
            let mut c = t.clone();
            if let Some(l) = levels_mut(&mut c.root, p) {
                l.layout.inspect.remove(ii);
                out.push(c);
            }
        }
        // drop doc ops / extra signers
        for oi in 0..lv.doc.ops.len() {
            let mut c = t.clone();
            if let Some(l) = levels_mut(&mut c.root, p) {
                l.doc.ops.remove(oi);
                out.push(c);
            }
        }
        for (fi, f) in lv.files.iter().enumerate() {
            for oi in 0..f.doc.ops.len() {
                let mut c = t.clone();
                if let Some(l) = levels_mut(&mut c.root, p) {
                    l.files[fi].doc.ops.remove(oi);
                    out.push(c);
                }
            }
        }
        // simplify rules and text
        for si in 0..lv.layout.steps.len() {
            let s = &lv.layout.steps[si];
            for ri in 0..s.exp_mat.len() {
                let mut c = t.clone();
                if let Some(l) = levels_mut(&mut c.root, p) {
                    l.layout.steps[si].exp_mat.remove(ri);
                    out.push(c);
                }
            }
            for ri in 0..s.exp_prod.len() {
                let mut c = t.clone();
                if let Some(l) = levels_mut(&mut c.root, p) {
                    l.layout.steps[si].exp_prod.remove(ri);
                    out.push(c);
                }
            }
            if !s.cmd.is_empty() {
                let mut c = t.clone();
                if let Some(l) = levels_mut(&mut c.root, p) {
                    l.layout.steps[si].cmd.clear();
                    out.push(c);
                }
            }
        }
        if !lv.layout.readme.is_empty() || lv.doc.pretty {
            let mut c = t.clone();
            if let Some(l) = levels_mut(&mut c.root, p) {
                l.layout.readme.clear();
                l.doc.pretty = false;
                out.push(c);
            }
        }
        for (fi, f) in lv.files.iter().enumerate() {
            if let Body::Link(lk) = &f.body {
                if lk.stdout.as_deref().unwrap_or("") != "" || lk.stderr.as_deref().unwrap_or("") != "" || lk.env.is_some() || f.doc.pretty || !lk.command.is_empty() {
                    let mut c = t.clone();
                    if let Some(l) = levels_mut(&mut c.root, p) {
                        if let Body::Link(lk2) = &mut l.files[fi].body {
                            lk2.stdout = Some(String::new());
                            lk2.stderr = Some(String::new());
                            lk2.env = None;
                            lk2.command.clear();
                        }
                        l.files[fi].doc.pretty = false;
                        out.push(c);
                    }
                }
                // drop artifacts one by one
                for k in lk.materials.keys().chain(lk.products.keys()) {
                    let mut c = t.clone();
                    if let Some(l) = levels_mut(&mut c.root, p) {
                        if let Body::Link(lk2) = &mut l.files[fi].body {
                            lk2.materials.remove(k);
                            lk2.products.remove(k);
                        }
                        out.push(c);
                    }
                }
            }
        }
    }
    out
}

pub fn minimise_supply(prop: &str, clause: &str, t: &SupplyTrace, scratch: &Scratch, history: &[Trace]) -> (SupplyTrace, bool) {
    let still = |prop: &str, clause: &str, c: &Trace, scratch: &Scratch| -> bool {
        if history.is_empty() {
            still(prop, clause, c, scratch)
        } else {
            let mut v = history.to_vec();
            v.push(c.clone());
            still(prop, clause, &Trace::Seq(v), scratch)
        }
    };
    let mut cur = t.clone();
    let mut changed = false;
    let mut budget = 4000;
    loop {
        let mut progress = false;
        for c in supply_candidates(&cur) {
            if budget == 0 {
                return (cur, changed);
            }
            budget -= 1;
            if c == cur {
                continue;
            }
            if still(prop, clause, &Trace::Supply(c.clone()), scratch) {
                cur = c;
                progress = true;
                changed = true;
                break;
            }
        }
        if !progress {
            return (cur, changed);
        }
    }
}

pub fn minimise(prop: &str, clause: &str, t: &Trace, scratch: &Scratch) -> (Trace, bool) {
    // the violation must reproduce in this process before anything is shrunk
    if !still(prop, clause, t, scratch) {
        return (t.clone(), false);
    }
    match t {
        Trace::Supply(s) => {
            let (m, ch) = minimise_supply(prop, clause, s, scratch, &[]);
            (Trace::Supply(m), ch)
        }
        Trace::Seq(ts) => {
            let last = match ts.last() {
                Some(l) => l.clone(),
                None => return (t.clone(), false),
            };
            // does the last trace fail on its own? then the history is not needed. Asked of a fresh
            // process: this one has already executed the history (process-wide state such as a cache
            // inside the library would make the answer "yes" for the wrong reason)
            if crate::runner::reproduces_in_fresh_process(prop, clause, &last) {
                let (m, _) = minimise(prop, clause, &last, scratch);
                return (m, true);
            }
            // keep the history, but only the elements a fresh process needs
            let mut hist: Vec<Trace> = ts[..ts.len() - 1].to_vec();
            let mut i = 0;
            while i < hist.len() && hist.len() > 1 {
                let mut cand = hist.clone();
                cand.remove(i);
                let mut full = cand.clone();
                full.push(last.clone());
                if crate::runner::reproduces_in_fresh_process(prop, clause, &Trace::Seq(full)) {
                    hist = cand;
                } else {
                    i += 1;
                }
            }
            match &last {
                Trace::Supply(s) => {
                    let (m, ch) = minimise_supply(prop, clause, s, scratch, &hist);
                    let mut v = hist.clone();
                    v.push(Trace::Supply(m));
                    (Trace::Seq(v), ch)
                }
                Trace::Ceremony(c) => {
                    let h = hist.iter().rev().find_map(|x| if let Trace::Ceremony(h) = x { Some(h.clone()) } else { None });
                    let (m, ch) = crate::ceremony::minimise(prop, clause, c, h.as_ref());
                    let mut v = hist.clone();
                    v.push(Trace::Ceremony(m));
                    (Trace::Seq(v), ch)
                }
                _ => (t.clone(), false),
            }
        }
        Trace::Ceremony(c) => {
            let (m, ch) = crate::ceremony::minimise(prop, clause, c, None);
            (Trace::Ceremony(m), ch)
        }
        Trace::Channel(c) => {
            let (m, ch) = crate::channel::minimise(prop, clause, c, scratch);
            (Trace::Channel(m), ch)
        }
        Trace::Recorder(c) => {
            let (m, ch) = crate::recorder::minimise(prop, clause, c, scratch);
            (Trace::Recorder(m), ch)
        }
        Trace::SeedSeq { .. } => (t.clone(), false),
        Trace::Bytes(c) => {
            let (m, ch) = crate::crash::minimise(prop, clause, c);
            (Trace::Bytes(m), ch)
        }
        Trace::Pipeline(c) => {
            let (m, ch) = crate::pipeline::minimise(prop, clause, c, scratch);
            (Trace::Pipeline(m), ch)
        }
        Trace::Rules(c) => {
            let (m, ch) = crate::rules::minimise(prop, clause, c, scratch);
            (Trace::Rules(m), ch)
        }
    }
}
