//! Oracles for the supply-chain scenario: necessary conditions for `Ok`, computed from ground
//! truth (never from a cryptographic primitive), weakest reading of each property (DESIGN §2.6, §3).

use crate::refmodel::{self, LinkArts, RuleVerdict};
use crate::supply::{SupplyOutcome, SupplyTrace};
use crate::world::*;
use serde::{Deserialize, Serialize};
use serde_json::Value;
use std::collections::{BTreeMap, BTreeSet};

#[derive(Clone, Debug, Serialize, Deserialize, PartialEq)]
pub struct Finding {
    pub prop: String,
    pub clause: String,
    pub detail: String,
}

fn finding(prop: &str, clause: &str, detail: String) -> Finding {
    Finding { prop: prop.into(), clause: clause.into(), detail }
}

#[derive(Clone, Debug)]
pub struct Cand {
    pub key: String,
    pub file: String,
    pub strict: bool,
    pub kind: Kind,
    pub signed: Value,
    /// for a sub-layout: failed necessary conditions of the delegated level (empty = would pass)
    pub sub_fails: Vec<Finding>,
    pub sub_eval: Option<Box<LevelEval>>,
}

#[derive(Clone, Debug)]
pub struct StepEval {
    pub name: String,
    pub threshold: u64,
    pub cands: Vec<Cand>,
}

#[derive(Clone, Debug, Default)]
pub struct LevelEval {
    pub id: String,
    pub fails: Vec<Finding>,
    pub steps: Vec<StepEval>,
    /// the reference model's verdict on the steps' artifact rules, when the evidence is unambiguous
    pub rules_reject: Option<String>,
    pub rules_judged: bool,
    pub insp_names: Vec<String>,
    pub out_of_scope: bool,
}

fn str_list(v: &Value) -> Vec<String> {
    v.as_array().map(|a| a.iter().filter_map(|x| x.as_str().map(|s| s.to_string())).collect()).unwrap_or_default()
}

pub fn arts_of(v: &Value) -> refmodel::Artifacts {
    let mut out = refmodel::Artifacts::new();
    if let Some(m) = v.as_object() {
        for (p, d) in m {
            let mut dig = refmodel::Digests::new();
            if let Some(dm) = d.as_object() {
                for (a, h) in dm {
                    dig.insert(a.clone(), h.as_str().unwrap_or("").to_string());
                }
            }
            out.insert(p.clone(), dig);
        }
    }
    out
}

fn rules_of(v: &Value) -> Option<Vec<refmodel::Rule>> {
    let mut out = vec![];
    for r in v.as_array()? {
        out.push(refmodel::parse_rule(&str_list(r))?);
    }
    Some(out)
}

fn normalized(p: &str) -> bool {
    !p.is_empty()
        && !p.starts_with('/')
        && !p.ends_with('/')
        && p.split('/').all(|c| !c.is_empty() && c != "." && c != "..")
}

/// Evaluate the necessary conditions for acceptance of one layout level against one directory.
/// `now` is the simulated instant of the verification call.
pub fn eval_level(layout: &DocTruth, dir: &DirTruth, now: (i64, u32), id: &str, depth: usize, exits: &BTreeMap<String, ExitSpec>) -> LevelEval {
    let mut ev = LevelEval { id: id.to_string(), ..Default::default() };
    let signed = &layout.signed;
    // expiry
    match signed["expires"].as_str().and_then(refmodel::rfc3339_instant) {
        Some(exp) => {
            if exp < now {
                ev.fails.push(finding(
                    "C06",
                    if depth == 0 { "expired-root" } else { "expired-delegated" },
                    format!("level {id}: expires {:?} = {:?} < now {:?}", signed["expires"], exp, now),
                ));
            }
        }
        None => {}
    }
    let table: BTreeSet<String> = signed["keys"].as_object().map(|m| m.keys().cloned().collect()).unwrap_or_default();
    let empty = vec![];
    // (two entries under one step name: every entry is a step of its own for C02 / C07; what "the first"
    // and "the last" step's link is for the summary is left open)
    {
        let names: Vec<&str> = signed["steps"].as_array().unwrap_or(&empty).iter().filter_map(|s| s["name"].as_str()).collect();
        let uniq: BTreeSet<&str> = names.iter().copied().collect();
        if uniq.len() != names.len() {
            ev.out_of_scope = true;
        }
    }
    for st in signed["steps"].as_array().unwrap_or(&empty) {
        let name = st["name"].as_str().unwrap_or("").to_string();
        let threshold = st["threshold"].as_u64().unwrap_or(0);
        let authorized: BTreeSet<String> = str_list(&st["pubkeys"]).into_iter().collect();
        let mut cands = vec![];
        for (fname, ft) in &dir.files {
            let doc = match ft {
                FileTruth::Doc(d) if d.kind != Kind::Garbage => d,
                _ => continue,
            };
            // <step>.<8 chars>.link
            let rest = match fname.strip_prefix(&format!("{}.", name)) {
                Some(r) => r,
                None => continue,
            };
            let p = match rest.strip_suffix(".link") {
                Some(p) if p.chars().count() == 8 => p,
                _ => continue,
            };
            let lenient = doc.labels.iter().any(|l| l.starts_with(p));
            if !lenient {
                continue;
            }
            for k in &doc.valid {
                if !authorized.contains(k) || !table.contains(k) {
                    continue;
                }
                let strict = k.starts_with(p);
                let (sub_fails, sub_eval) = if doc.kind == Kind::Layout {
                    let subname = format!("{}.{}", name, &k[..8]);
                    let empty_dir = DirTruth::default();
                    let sd = dir.subdirs.get(&subname).unwrap_or(&empty_dir);
                    if depth >= 4 {
                        (vec![], None)
                    } else {
                        let se = eval_level(doc, sd, now, &format!("{}/{}", id, subname), depth + 1, exits);
                        (se.fails.clone(), Some(Box::new(se)))
                    }
                } else {
                    (vec![], None)
                };
                cands.push(Cand {
                    key: k.clone(),
                    file: fname.clone(),
                    strict,
                    kind: doc.kind.clone(),
                    signed: doc.signed.clone(),
                    sub_fails,
                    sub_eval,
                });
            }
        }
        // step names with glob metacharacters (or none at all) are outside what C02/C15 quantify
        // over: the file-name pattern built from them matches other steps' files too
        // (dots between such segments are fine: "build.release" owns "build.release.????????.link" and no
        // file of it fits another step's pattern, a key-id prefix being eight characters)
        if name.is_empty() || !name.split('.').all(|seg| !seg.is_empty() && seg.chars().all(|c| c.is_ascii_alphanumeric() || c == '_' || c == '-')) {
            ev.steps.push(StepEval { name, threshold, cands });
            ev.out_of_scope = true;
            continue;
        }
        let need = threshold.max(1) as usize;
        let all: BTreeSet<&String> = cands.iter().map(|c| &c.key).collect();
        let noexp: BTreeSet<&String> =
            cands.iter().filter(|c| c.sub_fails.iter().all(|f| f.prop == "C06")).map(|c| &c.key).collect();
        let pass: BTreeSet<&String> = cands.iter().filter(|c| c.sub_fails.is_empty()).map(|c| &c.key).collect();
        if all.len() < need {
            ev.fails.push(finding(
                "C02",
                "unauthorized-or-invalid-evidence-counted",
                format!(
                    "level {id} step {name}: threshold {threshold} needs {need} distinct authorized valid signers, ground truth has {} ({:?})",
                    all.len(),
                    all.iter().map(|k| &k[..8]).collect::<Vec<_>>()
                ),
            ));
        } else if noexp.len() < need {
            let why: Vec<String> = cands.iter().flat_map(|c| c.sub_fails.iter().map(|f| format!("{}:{}", f.prop, f.clause))).collect();
            ev.fails.push(finding(
                "C15",
                "delegated-level-not-verified",
                format!("level {id} step {name}: only {} of the needed {need} signers have evidence whose delegated level can pass ({:?})", noexp.len(), why),
            ));
        } else if pass.len() < need {
            ev.fails.push(finding(
                "C06",
                "expired-delegated",
                format!("level {id} step {name}: only {} of the needed {need} signers have unexpired delegated evidence", pass.len()),
            ));
            ev.fails.push(finding(
                "C15",
                "delegated-level-expired",
                format!("level {id} step {name}: only {} of the needed {need} signers have unexpired delegated evidence", pass.len()),
            ));
        }
        // agreement (C07): all strictly counting evidence must report the same materials and products.
        // Delegated evidence takes part when its summary is determined (exactly one possible value).
        if threshold >= 2 {
            let strict: Vec<&Cand> = cands.iter().filter(|c| c.strict).collect();
            let mut arts: Vec<(String, Value, Value)> = vec![];
            let mut determined = true;
            for c in &strict {
                match (&c.kind, &c.sub_eval) {
                    (Kind::Link, _) => arts.push((c.file.clone(), c.signed["materials"].clone(), c.signed["products"].clone())),
                    (Kind::Layout, Some(se)) if c.sub_fails.is_empty() => {
                        let (pm, pp) = possible_summary(se);
                        let mut ms: Vec<&Value> = pm.iter().collect();
                        ms.dedup();
                        let mut ps: Vec<&Value> = pp.iter().map(|x| &x.0).collect();
                        ps.dedup();
                        let all_m_same = pm.iter().all(|x| Some(x) == pm.first());
                        let all_p_same = pp.iter().all(|x| Some(&x.0) == pp.first().map(|y| &y.0));
                        if !pm.is_empty() && !pp.is_empty() && all_m_same && all_p_same {
                            arts.push((c.file.clone(), pm[0].clone(), pp[0].0.clone()));
                        } else {
                            determined = false;
                        }
                    }
                    _ => determined = false,
                }
            }
            if determined {
                for a in &arts {
                    if a.1 != arts[0].1 || a.2 != arts[0].2 {
                        ev.fails.push(finding(
                            "C07",
                            "dissenting-link-accepted",
                            format!("level {id} step {name} (threshold {threshold}): evidence {} and {} differ in materials/products", arts[0].0, a.0),
                        ));
                        break;
                    }
                }
            }
        }
        ev.steps.push(StepEval { name, threshold, cands });
    }
    // an inspection whose command is known to fail (scripted exit status, signal, not found) makes the
    // level fail once it runs; for a delegated level that means its evidence cannot count
    for insp in signed["inspect"].as_array().unwrap_or(&empty) {
        let run = str_list(&insp["run"]);
        let failing = if run.len() == 3 && run[1] == "actor" {
            match exits.get(&run[2]) {
                Some(ExitSpec::Code(0)) | None => false,
                Some(_) => true,
            }
        } else {
            run.first().map(|x| x.starts_with("/nonexistent/scsim-notfound-")).unwrap_or(false)
        };
        if failing {
            ev.fails.push(finding(
                "C08",
                "failing-inspection-accepted",
                format!("level {id}: inspection {} is scripted to fail and the level was accepted", insp["name"]),
            ));
        }
    }
    ev.insp_names = signed["inspect"]
        .as_array()
        .unwrap_or(&empty)
        .iter()
        .map(|i| i["name"].as_str().unwrap_or("").to_string())
        .collect();
    // artifact rules of the steps, judged only when each step has exactly one possible
    // representative (all its strictly counting evidence is plain links with equal artifacts)
    let mut links: BTreeMap<String, LinkArts> = BTreeMap::new();
    let mut unambiguous = true;
    let mut non_normal = false;
    for s in &ev.steps {
        let strict: Vec<&Cand> = s.cands.iter().filter(|c| c.strict).collect();
        let lenient_only = s.cands.iter().any(|c| !c.strict);
        if strict.is_empty() || lenient_only || strict.iter().any(|c| c.kind != Kind::Link) {
            unambiguous = false;
            break;
        }
        let first = strict[0];
        if strict.iter().any(|c| c.signed["materials"] != first.signed["materials"] || c.signed["products"] != first.signed["products"]) {
            unambiguous = false;
            break;
        }
        let la = LinkArts { materials: arts_of(&first.signed["materials"]), products: arts_of(&first.signed["products"]) };
        if !la.materials.keys().chain(la.products.keys()).all(|p| normalized(p)) {
            // recorded paths that are not in normal form ("./z", "a//b", "x/../y"): whether rules see them
            // as written or in normal form is left open; the rules are judged under BOTH readings and only
            // where the two agree
            non_normal = true;
        }
        links.insert(s.name.clone(), la);
    }
    // the second reading: every recorded path in normal form (no reading if two paths of one set fall together,
    // or a path is absolute, empty or climbs out)
    let mut links_clean: Option<BTreeMap<String, LinkArts>> = None;
    if non_normal && unambiguous {
        let clean_arts = |a: &refmodel::Artifacts| -> Option<refmodel::Artifacts> {
            let mut out = refmodel::Artifacts::new();
            for (p, d) in a {
                if p.is_empty() || p.starts_with('/') {
                    return None;
                }
                let c = crate::recorder::clean(p);
                if c == "." || c.starts_with("..") || out.insert(c, d.clone()).is_some() {
                    return None;
                }
            }
            Some(out)
        };
        let mut m = BTreeMap::new();
        for (n, la) in &links {
            match (clean_arts(&la.materials), clean_arts(&la.products)) {
                (Some(a), Some(b)) => {
                    m.insert(n.clone(), LinkArts { materials: a, products: b });
                }
                _ => {
                    unambiguous = false;
                    break;
                }
            }
        }
        if unambiguous {
            links_clean = Some(m);
        }
    }
    if unambiguous && !ev.out_of_scope {
        let mut judged = true;
        let mut reject = None;
        for st in signed["steps"].as_array().unwrap_or(&empty) {
            let (em, ep) = match (rules_of(&st["expected_materials"]), rules_of(&st["expected_products"])) {
                (Some(a), Some(b)) => (a, b),
                _ => {
                    judged = false;
                    break;
                }
            };
            let in_scope = em.iter().chain(ep.iter()).all(rule_in_scope);
            if !in_scope {
                judged = false;
                break;
            }
            let v1 = refmodel::apply_item(&em, &ep, st["name"].as_str().unwrap_or(""), &links);
            if let Some(lc) = &links_clean {
                let v2 = refmodel::apply_item(&em, &ep, st["name"].as_str().unwrap_or(""), lc);
                if matches!(v1, RuleVerdict::Reject(_)) != matches!(v2, RuleVerdict::Reject(_)) {
                    // the two readings part ways at this step: nothing is judged
                    judged = false;
                    break;
                }
            }
            if let RuleVerdict::Reject(why) = v1 {
                reject = Some(format!("step {}: {}", st["name"], why));
                break;
            }
        }
        ev.rules_judged = judged;
        if judged {
            if let Some(why) = &reject {
                ev.fails.push(finding("C03", "rule-violation-accepted", format!("level {id}: reference model rejects: {why}")));
            }
            ev.rules_reject = reject;
        }
    }
    ev
}

/// Rules the property quantifies over: portable glob syntax, prefixes without trailing slash.
/// The one exception it names itself: DISALLOW with an uninterpretable pattern.
pub fn rule_in_scope(r: &refmodel::Rule) -> bool {
    use refmodel::Rule::*;
    let okp = |p: &String| refmodel::portable(p) && !p.is_empty();
    match r {
        Disallow(p) => okp(p) || !refmodel::interpretable(p),
        // (REQUIRE looks its operand up literally: whether it would also be a well-formed pattern is irrelevant)
        Require(p) => !p.is_empty(),
        Create(p) | Delete(p) | Modify(p) | Allow(p) => okp(p),
        Match { pattern, src, dst, .. } => {
            okp(pattern)
                && src.as_ref().map(|s| normalized(s)).unwrap_or(true)
                && dst.as_ref().map(|s| normalized(s)).unwrap_or(true)
        }
    }
}

/// Possible summaries of a level that passes: materials of counting first-step evidence, and
/// (products, command, byproducts) of counting last-step evidence, as JSON values.
fn possible_summary(ev: &LevelEval) -> (Vec<Value>, Vec<(Value, Value, Value)>) {
    let mut mats = vec![];
    let mut prods = vec![];
    if let Some(first) = ev.steps.first() {
        for c in &first.cands {
            match (&c.kind, &c.sub_eval) {
                (Kind::Link, _) => mats.push(c.signed["materials"].clone()),
                (Kind::Layout, Some(se)) => mats.extend(possible_summary(se).0),
                _ => {}
            }
        }
    }
    if let Some(last) = ev.steps.last() {
        for c in &last.cands {
            match (&c.kind, &c.sub_eval) {
                (Kind::Link, _) => prods.push((c.signed["products"].clone(), c.signed["command"].clone(), c.signed["byproducts"].clone())),
                (Kind::Layout, Some(se)) => prods.extend(possible_summary(se).1),
                _ => {}
            }
        }
    }
    (mats, prods)
}

pub struct SupplyJudgement {
    pub findings: Vec<Finding>,
    pub root_eval: Option<LevelEval>,
    /// shape digest input of the abstract post-fault world
    pub shape: String,
}

/// All clauses of all supply-chain properties on one executed trace.
pub fn judge_supply(t: &SupplyTrace, o: &SupplyOutcome) -> SupplyJudgement {
    let mut f = vec![];
    // C14: any panic is a crash of verification
    for (i, v) in o.verdicts.iter().enumerate() {
        if let Some(p) = &v.panic {
            f.push(finding("C14", "panic-in-verification", format!("repetition {i}: {p}")));
            break;
        }
    }
    if o.no_layout.is_some() || o.verdicts.is_empty() {
        return SupplyJudgement { findings: f, root_eval: None, shape: "no-layout".into() };
    }
    // with a clock that moves during the call, the weakest reading of "the moment of verification"
    // is the earliest instant any read returns
    let now = t.clock.iter().copied().min().unwrap_or((0, 0));
    let mut exits: BTreeMap<String, ExitSpec> = BTreeMap::new();
    {
        let mut acts = vec![];
        all_actors(&t.root, "root", &mut acts);
        for (a, _, _) in acts {
            exits.insert(a.id.clone(), a.exit.clone());
        }
    }
    let ev = eval_level(&o.truth.root_layout, &o.truth.dir, now, "root", 0, &exits);
    let any_ok = o.verdicts.iter().any(|v| v.ok);
    // C01: caller key set
    let caller_ids: Vec<String> = t.caller.iter().map(|(_, m)| crate::keys::key(t.keys[*m]).id.clone()).collect();
    let mut c01: Vec<Finding> = vec![];
    if caller_ids.is_empty() {
        c01.push(finding("C01", "empty-key-set-accepted", "caller passed no keys".into()));
    }
    let distinct: BTreeSet<&String> = caller_ids.iter().collect();
    if distinct.len() != caller_ids.len() {
        c01.push(finding("C01", "aliased-key-set-accepted", "caller passed the same key under two ids".into()));
    }
    for k in &distinct {
        if !o.truth.root_layout.valid.contains(*k) {
            c01.push(finding(
                "C01",
                "owner-signature-missing-or-invalid",
                format!("caller key {} has no valid signature over the enforced layout content (valid: {:?})", &k[..8], o.truth.root_layout.valid.iter().map(|x| &x[..8]).collect::<Vec<_>>()),
            ));
            break;
        }
    }
    if o.truth.root_layout.kind != Kind::Layout {
        c01.push(finding("C01", "not-a-layout-accepted", "root document is not a layout".into()));
    }
    if any_ok {
        f.extend(c01.iter().cloned());
        f.extend(ev.fails.iter().cloned());
        // C15 summary clause (two-sided on Ok), only for layouts with at least one step
        if !ev.steps.is_empty() && !ev.out_of_scope {
            let (pm, pp) = possible_summary(&ev);
            for v in o.verdicts.iter().filter(|v| v.ok) {
                if let Some(s) = &v.summary {
                    if !pm.is_empty() && !pm.contains(&s["materials"]) {
                        f.push(finding("C15", "summary-materials", format!("summary materials {} are not those of any counting first-step evidence", s["materials"])));
                        break;
                    }
                    if !pp.is_empty() && !pp.iter().any(|x| x.0 == s["products"]) {
                        f.push(finding("C15", "summary-products", format!("summary products {} are not those of any counting last-step evidence", s["products"])));
                        break;
                    }
                    if !pp.is_empty() && !pp.iter().any(|x| x.0 == s["products"] && x.1 == s["command"] && x.2 == s["byproducts"]) {
                        f.push(finding(
                            "C15",
                            "summary-command-byproducts",
                            format!("summary command {} / byproducts {} are not those of the counting last-step evidence with these products", s["command"], s["byproducts"]),
                        ));
                        break;
                    }
                    let want = t.step_name.clone().unwrap_or_default();
                    if s["name"] != Value::String(want.clone()) {
                        f.push(finding("C15", "summary-name", format!("summary name {} is not the requested one ({:?})", s["name"], want)));
                        break;
                    }
                }
            }
        }
    }
    // C03 for inspections: an inspection's link is what recording the working directory before and after its
    // scripted command gives; between two inspections the verifier leaves the first one's link file in the
    // working directory (a file of unknown content: an opaque digest that equals only itself). The rules of all
    // inspections are applied after all of them have run, over the links of all steps and all inspections — so an
    // inspection may refer to one listed after it. Judged only in the simple case (one or two root inspections
    // that exit 0, no delegation, rules in scope, every step's rules accepted by the reference).
    let mut insp_modelled = false;
    let mut insp_reject: Option<String> = None;
    let n_insp = t.root.layout.inspect.len();
    let distinct_names = t.root.layout.inspect.iter().map(|i| i.name.as_str()).collect::<BTreeSet<_>>().len() == n_insp
        && t.root.layout.inspect.iter().all(|i| !t.root.layout.steps.iter().any(|s| s.name == i.name));
    if (1..=2).contains(&n_insp) && distinct_names && exits.len() == n_insp && ev.rules_judged && ev.rules_reject.is_none() && ev.fails.is_empty() && c01.is_empty() {
        if t.root.layout.inspect.iter().all(|i| i.actor.exit == ExitSpec::Code(0)) && t.work_links.is_empty() {
            let digest = |content: &str| {
                let mut d = refmodel::Digests::new();
                d.insert("sha256".to_string(), crate::gen::sha256_hex(content.as_bytes()));
                d
            };
            // content of the working directory: Some(text) known, None opaque (keyed by an id)
            let mut content: BTreeMap<String, Result<String, String>> = t.work_files.iter().map(|(n, c)| (n.clone(), Ok(c.clone()))).collect();
            let to_arts = |m: &BTreeMap<String, Result<String, String>>| {
                let mut a = refmodel::Artifacts::new();
                for (n, c) in m {
                    match c {
                        Ok(text) => a.insert(n.clone(), digest(text)),
                        Err(id) => {
                            let mut d = refmodel::Digests::new();
                            d.insert("sha256".to_string(), format!("opaque:{id}"));
                            a.insert(n.clone(), d)
                        }
                    };
                }
                a
            };
            let mut modelled = true;
            let mut insp_links: Vec<(String, LinkArts)> = vec![];
            for insp in &t.root.layout.inspect {
                let before = to_arts(&content);
                for op in &insp.actor.ops {
                    match op {
                        FsOp::Write { path, content: text } => {
                            content.insert(path.clone(), Ok(text.clone()));
                        }
                        FsOp::Append { path, content: text } => {
                            let cur = content.get(path).cloned().unwrap_or(Ok(String::new()));
                            content.insert(
                                path.clone(),
                                match cur {
                                    Ok(c0) => Ok(format!("{c0}{text}")),
                                    Err(id) => Err(format!("{id}+{text}")),
                                },
                            );
                        }
                        FsOp::Remove { path } => {
                            content.remove(path);
                        }
                        _ => modelled = false,
                    }
                }
                let after = to_arts(&content);
                insp_links.push((insp.name.clone(), LinkArts { materials: before, products: after }));
                // the verifier dumps <name>.link into the working directory before the next inspection starts
                content.insert(format!("{}.link", insp.name), Err(format!("link-of-{}", insp.name)));
            }
            let paths_ok = insp_links.iter().all(|(_, l)| l.materials.keys().chain(l.products.keys()).all(|p| !p.contains('/') && !p.is_empty()));
            let parsed: Option<Vec<(Vec<refmodel::Rule>, Vec<refmodel::Rule>)>> = t
                .root
                .layout
                .inspect
                .iter()
                .map(|i| {
                    let em = i.exp_mat.iter().map(|r| refmodel::parse_rule(r)).collect::<Option<Vec<_>>>()?;
                    let ep = i.exp_prod.iter().map(|r| refmodel::parse_rule(r)).collect::<Option<Vec<_>>>()?;
                    Some((em, ep))
                })
                .collect();
            if let (true, true, Some(parsed)) = (modelled, paths_ok, parsed) {
                if parsed.iter().all(|(em, ep)| em.iter().chain(ep.iter()).all(rule_in_scope)) {
                    // the links of the steps, as the level evaluation used them
                    let mut links: BTreeMap<String, LinkArts> = BTreeMap::new();
                    for st in &ev.steps {
                        if let Some(c) = st.cands.iter().find(|c| c.strict) {
                            links.insert(st.name.clone(), LinkArts { materials: arts_of(&c.signed["materials"]), products: arts_of(&c.signed["products"]) });
                        }
                    }
                    for (n, l) in insp_links {
                        links.insert(n, l);
                    }
                    insp_modelled = true;
                    for (i, (em, ep)) in t.root.layout.inspect.iter().zip(parsed.iter()) {
                        if let RuleVerdict::Reject(why) = refmodel::apply_item(em, ep, &i.name, &links) {
                            insp_reject = Some(format!("{}: {why}", i.name));
                            break;
                        }
                    }
                }
            }
        }
    }
    if insp_modelled {
        if let Some(why) = &insp_reject {
            if any_ok {
                f.push(finding("C03", "rule-violation-accepted", format!("inspection {why} (reference model rejects)")));
            }
        } else if let Some(v) = o.verdicts.iter().find(|v| !v.ok && v.panic.is_none() && v.class == "ArtifactRuleError") {
            f.push(finding("C03", "rule-rejection-without-cause", format!("the verifier rejects with '{}' but the reference model accepts every step's and the inspection's rules", v.msg.chars().take(200).collect::<String>())));
        }
    }
    // C03, other direction: a rule rejection needs a cause in the reference model
    // (only where no inspection can be the one whose rules reject)
    if ev.rules_judged && ev.rules_reject.is_none() && c01.is_empty() && exits.is_empty() {
        if let Some(v) = o.verdicts.iter().find(|v| !v.ok && v.panic.is_none() && v.class == "ArtifactRuleError") {
            f.push(finding("C03", "rule-rejection-without-cause", format!("the verifier rejects with '{}' but the reference model accepts every step's rules", v.msg.chars().take(200).collect::<String>())));
        }
    }
    // C13: all repetitions agree
    if o.verdicts.len() > 1 {
        let classes: BTreeSet<&str> = o.verdicts.iter().map(|v| v.verdict_class()).collect();
        if classes.len() > 1 {
            let n_ok = o.verdicts.iter().filter(|v| v.ok).count();
            f.push(finding("C13", "verdict-flips", format!("{} Ok / {} not Ok over {} repetitions of one world", n_ok, o.verdicts.len() - n_ok, o.verdicts.len())));
        } else if any_ok {
            let first = o.verdicts[0].summary.as_ref();
            for v in &o.verdicts {
                let s = v.summary.as_ref();
                if s.map(|x| (&x["materials"], &x["products"])) != first.map(|x| (&x["materials"], &x["products"])) {
                    f.push(finding("C13", "summary-flips", "summary materials/products differ between repetitions of one world".into()));
                    break;
                }
            }
        }
    }
    // C08: inspections
    judge_c08(t, o, &ev, !c01.is_empty(), &mut f);
    // C06 witness: the verifier must have consulted the clock when it accepted
    for v in &o.verdicts {
        if v.ok && v.clock_reads == 0 {
            f.push(finding("C06", "clock-not-consulted", "verification returned Ok without reading the wall clock".into()));
            break;
        }
    }
    let shape = shape_of(t, &ev, &c01, o);
    SupplyJudgement { findings: f, root_eval: Some(ev), shape }
}

fn collect_levels<'a>(ev: &'a LevelEval, out: &mut BTreeMap<String, &'a LevelEval>) {
    out.insert(ev.id.clone(), ev);
    for s in &ev.steps {
        for c in &s.cands {
            if let Some(se) = &c.sub_eval {
                collect_levels(se, out);
            }
        }
    }
}

/// Every inspection actor of the world with the id of the level it currently belongs to (the chain
/// of sub-directories as they are now, after faults) and its inspection spec.
fn all_actors<'a>(level: &'a LevelSpec, path: &str, out: &mut Vec<(&'a ActorScript, String, &'a InspSpec)>) {
    for i in &level.layout.inspect {
        out.push((&i.actor, path.to_string(), i));
    }
    for f in &level.files {
        if let Body::Layout(inner) = &f.body {
            all_actors(inner, &format!("{}/{}", path, inner.subdir), out);
        }
    }
}

fn judge_c08(t: &SupplyTrace, o: &SupplyOutcome, ev: &LevelEval, root_sig_bad: bool, f: &mut Vec<Finding>) {
    let mut actors = vec![];
    all_actors(&t.root, "root", &mut actors);
    if actors.is_empty() {
        return;
    }
    let mut levels = BTreeMap::new();
    collect_levels(ev, &mut levels);
    if std::env::var_os("SCSIM_DEBUG").is_some() {
        eprintln!("DEBUG c08 levels {:?} actors {:?}", levels.keys().collect::<Vec<_>>(), actors.iter().map(|a| (a.0.id.clone(), a.1.clone())).collect::<Vec<_>>());
    }
    for (rep, events) in o.events.iter().enumerate() {
        let v = match o.verdicts.get(rep) {
            Some(v) => v,
            None => continue,
        };
        let started: Vec<&str> = events.iter().filter_map(|l| l.strip_prefix("start ")).collect();
        for id in &started {
            // the level(s) the actor belongs to now (a sub-layout filed twice is two levels running one
            // script; the start is in order if any of them may run it)
            let mut bad: Vec<String> = vec!["level-not-reachable".to_string()];
            for lid_owned in actors.iter().filter(|a| a.0.id == *id).map(|a| a.1.clone()) {
                let lid = lid_owned.as_str();
                let b = match levels.get(lid) {
                    Some(le) => {
                        // (a failing inspection is not a stage before the inspections)
                        let mut why: Vec<String> = le.fails.iter().filter(|x| x.prop != "C08").map(|x| format!("{}:{}", x.prop, x.clause)).collect();
                        if lid == "root" && root_sig_bad {
                            why.push("C01:owner-signature".into());
                        }
                        why
                    }
                    // the level is not reachable through valid authorized evidence at all
                    None => vec!["level-not-reachable".to_string()],
                };
                if b.is_empty() {
                    bad.clear();
                    break;
                }
                bad = b;
            }
            // (a level whose step names are out of scope — glob characters, repeated names — owns files the oracle
            // cannot attribute: whether a delegated level below it is reachable is then not judged)
            if bad.len() == 1 && bad[0] == "level-not-reachable" && levels.values().any(|l| l.out_of_scope) {
                continue;
            }
            if !bad.is_empty() {
                f.push(finding(
                    "C08",
                    "inspection-ran-before-steps-verified",
                    format!("repetition {rep}: inspection actor {id} was started although {:?}", bad),
                ));
                return;
            }
        }
        // link files of inspections written although the level fails
        for name in &ev.insp_names {
            let wrote = o.work_after[rep].iter().any(|p| p == &format!("{}.link", name));
            if wrote && (ev.fails.iter().any(|x| x.prop != "C08") || root_sig_bad) {
                f.push(finding(
                    "C08",
                    "inspection-link-written-before-steps-verified",
                    format!("repetition {rep}: {name}.link exists although {:?}", ev.fails.iter().map(|x| x.clause.clone()).collect::<Vec<_>>()),
                ));
                return;
            }
        }
        if v.ok {
            // files in the working directory before / after, as far as the scripts say
            let before: BTreeSet<String> = t.work_files.iter().map(|w| w.0.clone()).collect();
            for (a, lid, insp) in &actors {
                let ran = started.contains(&a.id.as_str());
                // (ii) a failing inspection is fatal
                let failing = match a.exit {
                    ExitSpec::Code(c) => c != 0 && ran,
                    ExitSpec::Signal(_) => ran,
                    ExitSpec::NotFound => lid == "root",
                };
                if failing {
                    f.push(finding(
                        "C08",
                        "failing-inspection-accepted",
                        format!("repetition {rep}: inspection actor {} ended with {:?} and verification returned Ok", a.id, a.exit),
                    ));
                    return;
                }
                // (iii) for a later root inspection: the link file of an earlier one lay in the working directory when
                // its command started (the actor's own observation), so it is among its materials; a DISALLOW of it
                // that comes first must be fatal
                if ran && a.exit == ExitSpec::Code(0) && lid == "root" && insp.name != t.root.layout.inspect[0].name {
                    let saw: Vec<&str> = events.iter().filter_map(|l| l.strip_prefix(&format!("saw {} ", a.id))).flat_map(|r| r.split(' ')).collect();
                    if let Some(r) = insp.exp_mat.first() {
                        if r.len() == 2 && r[0] == "DISALLOW" && saw.contains(&r[1].as_str()) && !t.work_files.iter().any(|w| w.0 == r[1]) {
                            f.push(finding(
                                "C08",
                                "inspection-rule-violation-accepted",
                                format!("repetition {rep}: inspection {}: '{}' lay in the working directory when its command started, its rules DISALLOW it among its materials, yet verification returned Ok", a.id, r[1]),
                            ));
                            return;
                        }
                    }
                }
                // (iii) the inspection's recorded materials and products are subject to its rules:
                // a DISALLOW rule that names a file present before (materials) or after (products)
                if ran && a.exit == ExitSpec::Code(0) && lid == "root" && insp.name == t.root.layout.inspect[0].name {
                    let mut after = before.clone();
                    for op in &a.ops {
                        match op {
                            FsOp::Write { path, .. } | FsOp::Append { path, .. } => {
                                after.insert(path.clone());
                            }
                            FsOp::Remove { path } => {
                                after.remove(path);
                            }
                            _ => {}
                        }
                    }
                    // a file the command modified, pinned by the rules to what it was before the command
                    // (MATCH f WITH MATERIALS FROM <the inspection itself>, then DISALLOW f)
                    if insp.exp_prod.len() == 2 && insp.exp_prod[0].len() == 6 && insp.exp_prod[0][0] == "MATCH" && insp.exp_prod[0][3] == "MATERIALS" && insp.exp_prod[0][5] == insp.name && insp.exp_prod[1].len() == 2 && insp.exp_prod[1][0] == "DISALLOW" && insp.exp_prod[1][1] == insp.exp_prod[0][1] && !t.root.layout.steps.iter().any(|s| s.name == insp.name) {
                        let fname = &insp.exp_prod[0][1];
                        let orig = t.work_files.iter().find(|w| &w.0 == fname).map(|w| w.1.clone());
                        let mut cur = orig.clone();
                        for op in &a.ops {
                            match op {
                                FsOp::Write { path, content } if path == fname => cur = Some(content.clone()),
                                FsOp::Append { path, content } if path == fname => cur = Some(format!("{}{}", cur.clone().unwrap_or_default(), content)),
                                FsOp::Remove { path } if path == fname => cur = None,
                                FsOp::TamperKeepStat { path } if path == fname => cur = cur.map(|c| format!("{c}\u{0}tampered")),
                                _ => {}
                            }
                        }
                        if orig.is_some() && cur.is_some() && cur != orig {
                            f.push(finding(
                                "C08",
                                "inspection-rule-violation-accepted",
                                format!("repetition {rep}: inspection {}: its command changed the content of '{fname}', its rules admit that product only with the digest it had as a material, yet verification returned Ok", a.id),
                            ));
                            return;
                        }
                    }
                    for (rules, present, what) in [(&insp.exp_mat, &before, "materials"), (&insp.exp_prod, &after, "products")] {
                        // (only a DISALLOW that comes first: a rule before it could have consumed the file)
                        for r in rules.iter().take(1) {
                            if r.len() == 2 && r[0] == "DISALLOW" && present.contains(&r[1]) {
                                f.push(finding(
                                    "C08",
                                    "inspection-rule-violation-accepted",
                                    format!("repetition {rep}: inspection {}: '{}' is among its {what} and its rules DISALLOW it, yet verification returned Ok", a.id, r[1]),
                                ));
                                return;
                            }
                        }
                    }
                }
            }
        }
    }
}

fn shape_of(t: &SupplyTrace, ev: &LevelEval, c01: &[Finding], o: &SupplyOutcome) -> String {
    fn lev(ev: &LevelEval, s: &mut String) {
        s.push('[');
        for st in &ev.steps {
            let keys: BTreeSet<&String> = st.cands.iter().map(|c| &c.key).collect();
            let subs = st.cands.iter().filter(|c| c.kind == Kind::Layout).count();
            let lenient = st.cands.iter().filter(|c| !c.strict).count();
            s.push_str(&format!("t{}k{}s{}l{};", st.threshold, keys.len(), subs, lenient));
            for c in &st.cands {
                if let Some(se) = &c.sub_eval {
                    lev(se, s);
                }
            }
        }
        let mut fs: Vec<String> = ev.fails.iter().map(|f| format!("{}:{}", f.prop, f.clause)).collect();
        fs.sort();
        fs.dedup();
        s.push_str(&fs.join(","));
        s.push(']');
    }
    let mut s = String::new();
    lev(ev, &mut s);
    let mut labels = t.labels.clone();
    labels.sort();
    let mut fired = o.truth.fired.clone();
    fired.sort();
    fired.dedup();
    let c: Vec<&str> = c01.iter().map(|f| f.clause.as_str()).collect();
    // rule-list signature: kinds in order, with prefix flags, per step
    for st in &t.root.layout.steps {
        for (tag, rl) in [("m", &st.exp_mat), ("p", &st.exp_prod)] {
            s.push_str(tag);
            for r in rl {
                s.push_str(&r.first().map(|k| k.chars().take(2).collect::<String>()).unwrap_or_default());
                if r.first().map(|k| k == "MATCH").unwrap_or(false) {
                    s.push_str(&format!("{}", r.iter().filter(|x| *x == "IN").count()));
                }
            }
            s.push('/');
        }
    }
    s.push_str(&format!("rj{:?}{}", ev.rules_reject.is_some(), ev.rules_judged));
    format!(
        "{}|{:?}|{:?}|{:?}|caller{}|files{}|{}",
        s,
        labels,
        fired,
        c,
        t.caller.len(),
        o.truth.dir.count_files(),
        o.verdicts.first().map(|v| v.verdict_class()).unwrap_or("none")
    )
}
