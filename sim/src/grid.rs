//! Fault-enumeration checks: per sampled world a whole grid of faults is enumerated.
//!  * C06: expiry-vs-clock offsets x UTC-offset notations x verifier instants x delegation depth x clock jumps
//!  * C08: failing verification stage x inspection process outcome x file operations

use crate::checks::{exec_supply, RunRecord, Tier};
use crate::exec::Scratch;
use crate::gen::{self, GenOpts, F};
use crate::prng::Rng;
use crate::refmodel;
use crate::supply::{run_supply, SupplyTrace};
use crate::world::*;

const NS: i128 = 1_000_000_000;

/// Execute one grid cell; the world's fault-free baseline was verified earlier in this process and
/// is kept as the history of any violation (process-wide state inside the library, e.g. a cached clock).
fn exec_cell(check: &str, t: &SupplyTrace, baseline: &SupplyTrace, scratch: &Scratch, rec: &mut RunRecord, seed: u64, index: u64) {
    let before = rec.own.len();
    exec_supply(check, t, scratch, rec, seed, index);
    // grids execute hundreds of cells per world: the recent cells are the ring's content; make sure the
    // world's baseline is part of the history as well
    for v in rec.own.iter_mut().skip(before) {
        let mut seq = vec![crate::checks::Trace::Supply(baseline.clone())];
        match &v.trace {
            crate::checks::Trace::Seq(ts) => seq.extend(ts.iter().cloned()),
            other => seq.push(other.clone()),
        }
        v.trace = crate::checks::Trace::Seq(seq);
    }
}

fn sub_levels<'a>(l: &'a mut LevelSpec, depth: usize, out: &mut Vec<(usize, *mut LevelSpec)>) {
    out.push((depth, l as *mut LevelSpec));
    for f in l.files.iter_mut() {
        if let Body::Layout(inner) = &mut f.body {
            sub_levels(inner, depth + 1, out);
        }
    }
}

fn max_depth(l: &LevelSpec) -> usize {
    l.files
        .iter()
        .filter_map(|f| match &f.body {
            Body::Layout(i) => Some(1 + max_depth(i)),
            _ => None,
        })
        .max()
        .unwrap_or(0)
}

/// Set every level's expiry to `far`, except levels at `depth`, which get `text`.
fn set_expiries(root: &mut LevelSpec, depth: usize, text: &str, far: &str) {
    let mut v = vec![];
    sub_levels(root, 0, &mut v);
    for (d, p) in v {
        // SAFETY: pointers from one exclusive borrow, used one at a time
        let l = unsafe { &mut *p };
        l.layout.expires = if d == depth { text.to_string() } else { far.to_string() };
    }
}

pub fn run_c06(tier: Tier, seed: u64, index: u64, scratch: &Scratch, rec: &mut RunRecord) {
    let mut r = Rng::stream(seed, "faults");
    let opts = GenOpts {
        delegation_pct: 45,
        max_depth: 2,
        max_steps: 2,
        ed_only_pct: if tier == Tier::Quick { 100 } else { 90 },
        rich_text: false,
        ..GenOpts::default()
    };
    let (mut base, _plan) = gen::baseline(seed, &opts);
    // configuration of the verifying host: its local time zone (POSIX TZ strings need no zoneinfo files)
    base.tz = Some(r.pick(&["UTC0", "XYZ10", "ABC-14", "EST5EDT", "IST-5:30", "NPT-5:45", "HST10", "<+13>-13"]).to_string());
    // the caller may ask for a named summary (the parameter the recursion uses for delegated levels)
    {
        let mut er = Rng::stream(seed, "environment");
        if er.chance(1, 3) {
            base.step_name = Some(gen::simple_name(&mut er));
        }
    }
    // every other world: all cells on the worker's long-lived verifier thread (thread-local state of the
    // library carries over from cell to cell)
    base.same_thread = Rng::stream(seed, "thread-mode").chance(1, 2);
    let far = "9999-12-31T23:59:59Z";
    // the fault-free world (all expiries far in the future) must be accepted
    let mut b = base.clone();
    set_expiries(&mut b.root, usize::MAX, far, far);
    let o = run_supply(&b, scratch);
    if o.no_layout.is_some() || !o.verdicts.iter().all(|v| v.ok) {
        rec.evaluations += 1;
        rec.vacuous += 1;
        rec.vacuous_why.push(o.no_layout.clone().unwrap_or_else(|| o.verdicts.first().map(|v| v.short()).unwrap_or_default()).chars().take(160).collect());
        // judged all the same: the oracle is a necessary condition for Ok
    }
    let depth_max = max_depth(&b.root).min(2);
    let year: i128 = 365 * 86_400;
    // expiry - clock, in nanoseconds
    let deltas: [(&str, i128); 13] = [
        ("-2000y", -2000 * year * NS),
        ("-300y", -300 * year * NS),
        ("+300y", 300 * year * NS),
        ("+2000y", 2000 * year * NS),
        ("-10y", -10 * year * NS),
        ("-1d", -86_400 * NS),
        ("-1s", -NS),
        ("-1ns", -1),
        ("0", 0),
        ("+1ns", 1),
        ("+1s", NS),
        ("+1d", 86_400 * NS),
        ("+10y", 10 * year * NS),
    ];
    let notations: [(&str, Option<i64>, &str, u32); 8] = [
        ("Z", None, "", 0),
        ("+00:00", Some(0), "", 0),
        ("+05:30", Some(330), "", 0),
        ("-11:00", Some(-660), "", 0),
        ("+14:00", Some(840), "", 0),
        (".5Z", None, ".5", 500_000_000),
        (".000000001Z", None, ".000000001", 1),
        (".999999999+05:30", Some(330), ".999999999", 999_999_999),
    ];
    // verifier instants (seconds): 1970-01-02, 2001-09-09, 2026, 2038-01-19T03:14:08Z, 2100, 9000
    let instants: [(&str, i64); 6] = [
        ("1970", 86_400),
        ("2001", 1_000_000_000),
        ("2026", 1_790_000_000 + (seed % 86_400) as i64),
        ("2038", 2_147_483_648),
        ("2100", 4_102_444_800),
        ("9000", 221_845_392_000),
    ];
    let n_inst = if tier == Tier::Quick { 3 } else { 6 };
    let inst_off = r.idx(6);
    for pos in 0..=depth_max {
        for ii in 0..n_inst {
            let (iname, t_s) = instants[(inst_off + ii) % 6];
            for (nname, off, frac, e_ns) in notations.iter() {
                // extra cell: expiry in year 9999 regardless of delta
                for (dname, d) in deltas.iter().chain([("y9999", i128::MAX)].iter()) {
                    for jump in [false, true] {
                        // forward jumps matter on both sides of the boundary: an expired layout must stay
                        // rejected, and an unexpired one must not crash or confuse a second clock read
                        if jump && matches!(*dname, "-2000y" | "+2000y" | "-300y" | "+300y" | "-10y" | "+10y" | "y9999") {
                            continue;
                        }
                        // expiry instant E = (e_s, e_ns); clock = E - delta
                        let (e_s, clock): (i64, (i64, u32)) = if *d == i128::MAX {
                            (253_402_300_799 - 86_400, (t_s, 0))
                        } else {
                            // choose E so that the clock lands on second t_s (+ sub-second part)
                            let c_total: i128 = t_s as i128 * NS + 123_456_789;
                            let e_total = c_total + d;
                            // force E's nanosecond part to the notation's fraction, adjust the clock accordingly
                            let e_s = e_total.div_euclid(NS);
                            let e_total = e_s * NS + *e_ns as i128;
                            let c_total = e_total - d;
                            if c_total < 0 {
                                continue;
                            }
                            (e_s as i64, (c_total.div_euclid(NS) as i64, c_total.rem_euclid(NS) as u32))
                        };
                        let shown = e_s + off.unwrap_or(0) * 60;
                        if !(-62_135_596_800 + 86_400..253_402_300_799 - 86_400 * 2).contains(&shown) && *d != i128::MAX {
                            continue;
                        }
                        if e_s < -62_000_000_000 || e_s > 253_402_300_799 - 2 * 86_400 {
                            continue;
                        }
                        let text = refmodel::render_rfc3339(e_s, *off, frac);
                        let mut t = base.clone();
                        set_expiries(&mut t.root, pos, &text, far);
                        // the jump lands just behind the expiry when that lies ahead, a year later otherwise
                        let landed = if e_s >= clock.0 { (e_s + 1 + (seed % 3) as i64, 0) } else { (clock.0 + 365 * 86_400, clock.1) };
                        t.clock = if jump { vec![clock, landed] } else { vec![clock] };
                        t.labels = vec![format!("d={dname}"), format!("n={nname}"), format!("t={iname}"), format!("pos={pos}"), if jump { "JUMP".into() } else { "CONST".into() }];
                        let before = rec.evaluations;
                        exec_cell("C06", &t, &b, scratch, rec, seed, index);
                        let _ = before;
                        rec.sim_seconds += (e_s - clock.0).unsigned_abs() as f64;
                        if *dname == "-1ns" || *dname == "+1ns" || *dname == "0" {
                            rec.probe("expiry within 1 ns of the clock");
                        }
                        if pos > 0 {
                            rec.probe("expiring layout is a delegated one");
                        }
                        if pos > 1 {
                            rec.probe("expiring layout at delegation depth 2");
                        }
                    }
                }
            }
        }
    }
}

// ---------------------------------------------------------------------------------------------
// C08
// ---------------------------------------------------------------------------------------------
fn set_actor(t: &mut SupplyTrace, which: usize, exit: ExitSpec, ops: Vec<FsOp>, noutf8: bool) {
    if let Some(i) = t.root.layout.inspect.get_mut(which) {
        // an inspection that writes more than a pipe buffer holds to both streams (1 cell in 16)
        let big = !noutf8 && (ops.len() + which) % 2 == 1 && matches!(exit, ExitSpec::Code(0) | ExitSpec::Code(2));
        let nops = ops.len();
        let failing = !matches!(exit, ExitSpec::Code(0));
        i.actor.exit = exit;
        i.actor.ops = ops;
        // (text with multi-byte characters: some read of the pipe ends inside a character)
        i.actor.stdout = if noutf8 { vec![0xff, 0xfe, 0x00, 0xc3] } else if big { "\u{4e16}\u{754c}x\u{e9}".repeat(180_000 / 9 + which).into_bytes() } else { b"inspected\n".to_vec() };
        // (multi-byte text on the error stream too, and — in cells with a failing status — a few hundred bytes of it:
        // whoever quotes the output of a failed inspection cuts it somewhere)
        i.actor.stderr = if big {
            format!("{}{}", "e".repeat(which % 4), "\u{e9}\u{4e16}".repeat(120_000 / 5)).into_bytes()
        } else if !noutf8 && failing {
            format!("{}{}", "e".repeat((nops + which) % 4), "\u{e9}\u{20ac}".repeat(60 + 40 * (nops % 4))).into_bytes()
        } else {
            vec![]
        };
    }
}

pub fn run_c08(tier: Tier, seed: u64, index: u64, scratch: &Scratch, rec: &mut RunRecord) {
    let mut r = Rng::stream(seed, "faults");
    let opts = GenOpts {
        delegation_pct: 30,
        max_depth: 1,
        max_steps: 3,
        ed_only_pct: 100,
        inspections: true,
        rich_text: false,
        ..GenOpts::default()
    };
    let (mut base, plan) = gen::baseline(seed, &opts);
    base.same_thread = Rng::stream(seed, "thread-mode").chance(1, 2);
    // inspection rules: products of the inspection must not contain a file named "forbidden"
    for i in base.root.layout.inspect.iter_mut() {
        i.exp_prod = vec![vec!["DISALLOW".into(), "forbidden".into()]];
    }
    // baseline: all inspections exit 0 and touch nothing
    let o = run_supply(&base, scratch);
    if o.no_layout.is_some() || !o.verdicts.iter().all(|v| v.ok) {
        rec.evaluations += 1;
        rec.vacuous += 1;
        rec.vacuous_why.push(o.no_layout.clone().unwrap_or_else(|| o.verdicts.first().map(|v| v.short()).unwrap_or_default()).chars().take(160).collect());
        let j = crate::oracle::judge_supply(&base, &o);
        for f in j.findings {
            rec.cross.push(f);
        }
    }
    let stages: &[Option<F>] = &[
        None,
        Some(F::LCorrupt),
        Some(F::LNoSig),
        Some(F::Skew),
        Some(F::Drop),
        Some(F::Outsider),
        Some(F::SigSwap),
        Some(F::Unmet),
        Some(F::Dissent),
        Some(F::ATamper),
        Some(F::SubInner),
        Some(F::WrongStep),
        Some(F::LinkEdit),
    ];
    let outcomes: &[(ExitSpec, bool)] = &[
        (ExitSpec::Code(0), false),
        (ExitSpec::Code(1), false),
        (ExitSpec::Code(2), false),
        (ExitSpec::Code(126), false),
        (ExitSpec::Code(255), false),
        (ExitSpec::Signal(9), false),
        (ExitSpec::NotFound, false),
        (ExitSpec::Code(0), true),
    ];
    let n_insp = base.root.layout.inspect.len();
    let fileops = if tier == Tier::Quick { 2 } else { 8 };
    // an extra "stage": the inspection of a delegated level fails while the delegating step has
    // surplus evidence (another functionary's plain link and a threshold that one link meets)
    {
        let mut t = base.clone();
        let mut done = false;
        let steps = t.root.layout.steps.clone();
        for (si, st) in steps.iter().enumerate() {
            let fs: Vec<usize> = t.root.files.iter().enumerate().filter(|(_, f)| f.name.starts_with(&format!("{}.", st.name))).map(|(i, _)| i).collect();
            let sub = fs.iter().copied().find(|i| matches!(&t.root.files[*i].body, Body::Layout(l) if !l.layout.inspect.is_empty()));
            let plain = fs.iter().copied().find(|i| matches!(t.root.files[*i].body, Body::Link(_)));
            if let (Some(a), Some(_)) = (sub, plain) {
                if let Body::Layout(inner) = &mut t.root.files[a].body {
                    inner.layout.inspect[0].actor.exit = ExitSpec::Code(1 + r.below(3) as i32);
                }
                t.root.layout.steps[si].threshold = 1;
                done = true;
                break;
            }
        }
        if done {
            t.labels.push("stage=SUB-INSPECTION-FAILS".into());
            exec_cell("C08", &t, &base, scratch, rec, seed, index);
            rec.probe("failing inspection inside a delegated level, surplus evidence");
        }
    }
    // another extra cell: with two root inspections, the second one forbids the first one's link file among its
    // materials — the verifier leaves that file in the working directory before the second command starts
    if n_insp >= 2 {
        let mut t = base.clone();
        let first = t.root.layout.inspect[0].name.clone();
        if t.root.layout.inspect[1].name != first && !t.root.layout.steps.iter().any(|s| s.name == first) {
            t.root.layout.inspect[1].exp_mat = vec![vec!["DISALLOW".into(), format!("{first}.link")]];
            t.labels.push("stage=none".into());
            t.labels.push("SECOND-INSPECTION-FORBIDS-FIRST-LINK".into());
            exec_cell("C08", &t, &base, scratch, rec, seed, index);
            rec.probe("second inspection forbids the first one's link file");
        }
    }
    for stage in stages {
        // one concrete failing world per stage (placement drawn from the seed)
        let mut staged = base.clone();
        if let Some(f) = stage {
            let mut fr = Rng::stream(seed ^ crate::prng::fnv(gen::fname(*f)), "stage");
            let mut ok = false;
            for _ in 0..6 {
                if gen::apply_fault(&mut staged, &plan, *f, &mut fr, *f == F::SubInner) {
                    ok = true;
                    break;
                }
            }
            if !ok {
                continue;
            }
        }
        for (exit, noutf8) in outcomes {
            for fo in 0..fileops {
                let fo = (fo + r.idx(8)) % 8;
                let mut t = staged.clone();
                let which = r.idx(n_insp.max(1));
                let ops = match fo {
                    0 => vec![],
                    1 => vec![FsOp::Write { path: "sentinel".into(), content: "created by inspection".into() }],
                    2 => vec![FsOp::Append { path: "pre-existing".into(), content: "modified".into() }],
                    4 => vec![],
                    5 => vec![],
                    6 => vec![FsOp::Write { path: "forbidden".into(), content: "x".into() }],
                    7 => vec![match r.below(3) {
                        0 => FsOp::TamperKeepStat { path: "pre-existing".into() },
                        1 => FsOp::Write { path: "pre-existing".into(), content: "ORIGINAL".into() },
                        _ => FsOp::Append { path: "pre-existing".into(), content: "!".into() },
                    }],
                    _ => vec![FsOp::Remove { path: "pre-existing".into() }, FsOp::Write { path: "forbidden".into(), content: "x".into() }],
                };
                if fo >= 2 {
                    t.work_files.push(("pre-existing".into(), "original".into()));
                }
                if fo == 5 {
                    // several names for one file in the working directory
                    t.work_files.push(("libfoo.so.1.0".into(), "ELF".into()));
                    t.work_links.push(("libfoo.so".into(), "libfoo.so.1.0".into()));
                    t.work_links.push(("libfoo.so.1".into(), "libfoo.so.1.0".into()));
                    // a file the inspection's rules forbid lies in the directory from the start, somewhere
                    // among the other entries
                    t.work_files.push(("forbidden".into(), "x".into()));
                    t.work_files.push(("zzz".into(), "y".into()));
                    t.arrivals = vec![r.next()];
                }
                if fo == 4 {
                    // an inspection that changes nothing, whose rules reject what is there
                    if let Some(i) = t.root.layout.inspect.get_mut(0) {
                        if r.chance(1, 2) {
                            i.exp_mat = vec![vec!["DISALLOW".into(), "pre-existing".into()]];
                        } else {
                            i.exp_prod = vec![vec!["DISALLOW".into(), "pre-existing".into()]];
                        }
                    }
                }
                if fo == 7 {
                    // an inspection that modifies a file its rules pin to what it was before the command
                    if let Some(i) = t.root.layout.inspect.get_mut(0) {
                        i.exp_mat = vec![];
                        i.exp_prod = vec![
                            vec!["MATCH".into(), "pre-existing".into(), "WITH".into(), "MATERIALS".into(), "FROM".into(), i.name.clone()],
                            vec!["DISALLOW".into(), "pre-existing".into()],
                        ];
                    }
                }
                if fo == 6 {
                    // the first inspection bears the name of a step; it creates a file its rules forbid
                    if let (Some(st), Some(i)) = (t.root.layout.steps.get(r.idx(t.root.layout.steps.len().max(1))).map(|s| s.name.clone()), t.root.layout.inspect.get_mut(0)) {
                        i.name = st;
                    }
                }
                set_actor(&mut t, if fo == 4 || fo == 6 || fo == 7 { 0 } else { which }, exit.clone(), ops, *noutf8);
                t.labels.push(format!("stage={}", stage.map(gen::fname).unwrap_or("none")));
                t.labels.push(format!("exit={:?}{}", exit, if *noutf8 { "+NOUTF8" } else { "" }));
                t.labels.push(format!("fileops={fo}"));
                exec_cell("C08", &t, &base, scratch, rec, seed, index);
                match exit {
                    ExitSpec::Signal(_) => rec.probe("inspection killed by signal"),
                    ExitSpec::NotFound => rec.probe("inspection command not found"),
                    _ => {}
                }
                if stage.is_none() {
                    rec.probe("all stages pass, inspection outcome decides");
                }
            }
        }
    }
}
