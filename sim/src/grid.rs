//! stub
use crate::checks::{RunRecord, Tier};
use crate::exec::Scratch;
pub fn run_c06(_t: Tier, _s: u64, _i: u64, _sc: &Scratch, _r: &mut RunRecord) {}
pub fn run_c08(_t: Tier, _s: u64, _i: u64, _sc: &Scratch, _r: &mut RunRecord) {}
