//! Texts that go into the evidence files, and the determinism command.
use serde_json::{json, Value};

pub fn rule_text(check: &str) -> String {
    match check {
        _ => format!("one run = one seed of the {check} scenario: an accepting baseline world built by construction (rejected baselines are counted as vacuous and not judged), then 1-3 faults of the catalogue; a case is non-trivial when at least one fault fired and the root layout was still parseable; distinct = distinct digest of the abstract post-fault world shape (per step: threshold, number of counting signers, delegated evidence, lenient matches; failed necessary conditions; fault kinds; caller key-set size; file count; verdict class)"),
    }
}

pub fn components(_check: &str) -> Value {
    json!({
        "real": ["in_toto (verifylib, runlib, rulelib, models, crypto, interchange::cjson)", "serde_json", "ring", "glob", "walkdir", "path-clean", "pem", "derp", "chrono parsing", "std::fs / std::process", "kernel tmpfs, fork/exec"],
        "stubbed": ["wall clock (clock_gettime symbol)", "hash-map entropy (getrandom symbol)", "bytes returned by read(2) on scratch files when armed", "step and inspection commands (scripted actor process)", "the other parties: owners, functionaries, attackers (harness code calling the library's public signing API)"],
        "not_controllable": ["ring's signing entropy (ECDSA nonce, RSA-PSS salt): signature bytes differ run to run, verdicts do not"],
    })
}

pub fn assumptions(_check: &str) -> Value {
    json!([
        "signature schemes are unforgeable: a changed message or signature value never verifies by accident",
        "ground truth about signature validity is symbolic (who signed which content, what was touched since) and uses the library's typed parser and PartialEq only to decide whether an edited document still carries the content that was signed",
        "the libc-symbol seams (clock_gettime, getrandom, read) are live in this toolchain; checked by the start-up self-test on every run",
        "sampling, not enumeration: a clean batch is evidence, not proof"
    ])
}

/// `scsim determinism [--seeds N] [--seed BASE] [check ids...]`: every listed check is run twice on the
/// same seeds, in different worker processes, at worker counts 4 and 16; the per-run event-log digests
/// (abstract world, fault sites, clock reads, getrandom draws, verdict strings with digit runs masked,
/// summaries, actor events, directory listings) must be identical.
pub fn determinism_main(args: &[String]) -> i32 {
    use crate::checks::Tier;
    use crate::runner::{run_check, CheckArgs};
    crate::install_quiet_panic_hook();
    if let Err(e) = crate::seams::selftest() {
        println!("HARNESS ERROR: {e}");
        return 2;
    }
    let mut seeds: u64 = 2000;
    let mut base: u64 = crate::runner::DEFAULT_SEED;
    let mut tier = Tier::Quick;
    let mut checks: Vec<String> = vec![];
    let mut i = 2;
    while i < args.len() {
        match args[i].as_str() {
            "--seeds" => {
                seeds = args.get(i + 1).and_then(|s| s.parse().ok()).unwrap_or(seeds);
                i += 1;
            }
            "--seed" => {
                base = args.get(i + 1).and_then(|s| s.parse().ok()).unwrap_or(base);
                i += 1;
            }
            "--tier" => {
                if args.get(i + 1).map(|s| s == "thorough").unwrap_or(false) {
                    tier = Tier::Thorough;
                }
                i += 1;
            }
            c => checks.push(c.to_string()),
        }
        i += 1;
    }
    if checks.is_empty() {
        checks = ["C01", "C02", "C03", "C04", "C05", "C06", "C07", "C08", "C09", "C13", "C14", "C15", "C17", "C18"].iter().map(|s| s.to_string()).collect();
    }
    let mut bad = 0;
    for c in &checks {
        let n = if matches!(c.as_str(), "C06" | "C08") { (seeds / 100).max(4) } else if c == "C05" { (seeds / 20).max(8) } else { seeds };
        let run = |workers: u64| {
            run_check(&CheckArgs { check: c.clone(), tier, seed: base, runs: n, workers, keep_log: true, write_evidence: false })
        };
        let a = run(4);
        let b = run(16);
        let mut diff = vec![];
        for (k, v) in &a.summary.log_digests {
            if b.summary.log_digests.get(k) != Some(v) {
                diff.push(*k);
            }
        }
        let missing = a.summary.log_digests.len() != b.summary.log_digests.len();
        println!(
            "{c}: {} seeds x 2 executions (4 and 16 workers), {} evaluations each: {}",
            n,
            a.summary.evaluations,
            if diff.is_empty() && !missing { "identical event logs".to_string() } else { format!("DIFFERENT at run indices {:?}", &diff[..diff.len().min(10)]) }
        );
        if !diff.is_empty() || missing {
            bad += 1;
        }
    }
    crate::exec::cleanup_process_scratch();
    if bad > 0 {
        println!("HARNESS ERROR: {bad} checks are not deterministic");
        2
    } else {
        println!("deterministic: every seed replayed to the same event log");
        0
    }
}
