//! Texts that go into the evidence files, and the determinism command.
use serde_json::{json, Value};

pub fn rule_text(check: &str) -> String {
    let supply = "one run = one seed: a supply-chain world (owners, functionaries, outsiders with seeded keys; 1-4 steps with thresholds 0-3; optional delegation) that is accepting by construction, verified once fault-free (a rejected baseline is counted under 'vacuous' but the faulted world is judged all the same), then the same world with 1-3 faults of the catalogue, verified through the public in_toto_verify under the clock / hash / storage seams. Non-trivial = at least one fault fired and the root layout was still parseable. Distinct = distinct digest of the abstract post-fault world: per step threshold, number of counting signers, delegated and lenient evidence, failed necessary conditions, fault kinds, caller key-set size, file count, rule-list signature, verdict class.";
    match check {
        "C07" => format!("{supply} PIPELINE RUNS (one run in thirty-two): a chain of 1-3 steps really carried out with in_toto_run in workspaces on tmpfs, one step by TWO functionaries, each on his own copy of what the artifact transport handed over (the transport to the second one may tamper with / inject / remove a file); the step needs both links; if the harness's own snapshots of the two workspaces (before and after the command) differ, verification must fail."),
        "C01" | "C02" | "C15" => supply.to_string(),
        "C13" => format!("{supply} For C13 the world is biased to the dangerous shape (threshold <= 1 or surplus signers, with 1-3 extra authorized valid links whose materials/products differ) and is verified 12 (quick) / 48 (thorough) times, each in a fresh thread with different injected hash-map keys and one of three file-creation orders; all repetitions must agree in verdict class and summary materials/products."),
        "C14" => "one run = one seed of one of four case kinds: (a) a supply-chain world whose link directory gets 1-4 storage faults before any signature is checked (bit flip, torn write, overwrite with NUL / multi-byte UTF-8, garbage, directory / dangling link / named pipe in place of a file, duplicate under another or an odd multi-byte name); (b) Byzantine-but-signed odd content (non-ASCII key ids, non-normalized paths, extreme thresholds and return values, odd step names / patterns / expiry strings, empty layout, self-delegation through a symlinked sub-directory, hostile text); (c) a real signed document, damaged, fed to the decoders and to block verification through a faulting stream (chunking, EINTR, EIO at an offset), or random bytes to calculate_hashes; (d) a key file (PKCS#8, SPKI DER, PEM, key JSON, raw ed25519) damaged by truncation / bit flips / overwrites / extreme length octets, fed to the key importers. One (a)/(b) world in four is an in-place update (time stamps as they come / preserved / older than before) of the same directory verified intact a moment earlier in the same process; one in ten has inspections whose commands print multi-byte or non-UTF-8 output of lengths around typical cut points and end with a failure status, a signal, or cannot be started. Every library call runs under catch_unwind in a worker process watched by the parent (abort, stack overflow, 60 s without progress). Distinct = digest of case kind, fault labels, outcome class and size class / world shape; all cases are non-trivial.".to_string(),
        "C06" => "one run = one sampled supply-chain world (delegation depth up to 2) x the whole grid: expiry-minus-clock in {-10y,-1d,-1s,-1ns,0,+1ns,+1s,+1d,+10y, year 9999} x notation in {Z,+00:00,+05:30,-11:00,+14:00,.5Z,.000000001Z,.999999999+05:30} x verifier instant in {1970-01-02, 2001, 2026, 2038-01-19T03:14:08Z, 2100, 9000} (3 of 6 in quick) x position of the expiring layout in {root, depth 1, depth 2} x clock {constant, jumping forward between reads}. Each cell is one evaluation; distinct = digest of world shape x cell; all cells are non-trivial (a clock fault is always present).".to_string(),
        "C08" => "one run = one sampled supply-chain world with 1-2 inspections x the grid: failing stage in {none, corrupted / missing owner signature, expiry, missing link, outsider, forged signature, unmet threshold, dissent, failing step rule, failing delegated level, wrong-step signer, post-signing edit} x inspection outcome in {exit 0,1,2,126,255, SIGKILL, command not found, non-UTF-8 output} x file operations in {none, create, modify, delete+create a forbidden file}. Real fork/exec of the scripted actor; its own event log says whether it was started. Distinct = digest of world shape x cell. PIPELINE RUNS (the run indices beyond the grid worlds: 1024 quick / 4000 thorough, each with an inspection): the whole chain is carried out inside the simulator — 1-3 steps really executed with in_toto_run in their own workspaces on tmpfs (the command is a scripted actor process; the functionary names the workspace as '.', by absolute path with a strip-prefix, or by directory name from the parent), products handed to the next workspace by an artifact transport that may tamper with / inject / remove / rename a file, the signed links the library returns stored in the link directory, the last products delivered (through the transport again) to the verifier's working directory, in_toto_verify over it all, optionally with an inspection over the delivered product; rule lists derived from the flow (tight), perturbed, or random. Oracle: the reference model evaluated on snapshots the harness takes itself of every workspace before and after its command (own walk, one-shot digests), not on what the library recorded — everything else being valid by construction, the verdict must be Ok exactly if the model accepts every item; the recorded links must equal the snapshots (C18), no inspection may start after a step's rules failed (C08), the summary is the first step's materials and the last step's products (C15).".to_string(),
        "C03" => "one run = one seed: 1-3 steps with one valid authorized link each (so that every other verification stage passes by construction), artifacts over a small path universe with created / deleted / modified / unchanged files, products of one step handed to the next with optional prefix shift and in-transit faults (tamper, inject, remove, rename), rule lists of length 0-7 over all seven kinds (MATCH with and without either IN, referring to present, own and absent steps; DISALLOW with uninterpretable patterns now and then); a third of the worlds have one root inspection with a scripted command over a working directory that holds copies of the last products, and half of those a second one (it finds the first one's link file in the working directory; either may refer to the other's link). The verifier's verdict is compared both ways with the reference model of the specification's algorithm. Distinct = digest that includes the rule-kind sequence of every list, the reference verdict and the verifier's verdict class; all cases are non-trivial. PIPELINE RUNS (one run in sixteen): the whole chain is carried out inside the simulator — 1-3 steps really executed with in_toto_run in their own workspaces on tmpfs (the command is a scripted actor process; the functionary names the workspace as '.', by absolute path with a strip-prefix, or by directory name from the parent), products handed to the next workspace by an artifact transport that may tamper with / inject / remove / rename a file, the signed links the library returns stored in the link directory, the last products delivered (through the transport again) to the verifier's working directory, in_toto_verify over it all, optionally with an inspection over the delivered product; rule lists derived from the flow (tight), perturbed, or random. Oracle: the reference model evaluated on snapshots the harness takes itself of every workspace before and after its command (own walk, one-shot digests), not on what the library recorded — everything else being valid by construction, the verdict must be Ok exactly if the model accepts every item; the recorded links must equal the snapshots (C18), no inspection may start after a step's rules failed (C08), the summary is the first step's materials and the last step's products (C15).".to_string(),
        "C04" => "one run = one signing ceremony: a layout or link body, 1-5 signers of mixed key types, one of two construction paths, a wire form (compact, pretty, Json::to_writer through a chunking / EINTR writer), 0-3 channel faults on the signature messages (drop, duplicate, shuffle, swap values between labels, relabel, bit flip, re-sign by the same key, extra unauthorized signer, strip all), in one ceremony out of six a call the library refuses (signing with a misfit key, canonicalizing a non-integer number, decoding a torn document) made on the same thread right before signing and / or each verification, an authorized set (exact, duplicate, superset, subset, empty, disjoint, JSON alias) and a threshold in {0,1,m,m+1,random,u32::MAX}; verified 6 (quick) / 16 (thorough) times under different hash schedules and permutations of signatures and keys. Distinct = digest of labels, threshold class, sizes, per-signature truth, verdict set.".to_string(),
        "C09" => "one run = one ceremony (as C04) verified positively (threshold = number of signers after the wire trip) and then negatively: one authorized key replaced by another party's, 6 (quick) / 24 (thorough) single-bit flips of one signature, and every signer's key material re-declared under each of the three other schemes, with and without presenting the signature under the re-declared key's id. Each of these is one evaluation.".to_string(),
        "C05" => "one run = one signed document (layout or link, sampled) x every edit of the enumerated edit space: per leaf of the signed part one same-type mutation, the near-collision string edits (LF <-> backslash-n, added quote / backslash / control / TAB / \\u escape, truncated last character, JSON-injection suffix), null / empty, +-1 and stringified numbers, vocabulary swaps (rule keywords, MATERIALS/PRODUCTS, schemes, key types, digest algorithms), member removal / renaming / key-value swap, array element duplication and character moved across an element boundary, MATCH prefix splices; per container removal / renaming / duplication. The genuine document is verified first (history). Every edit is one evaluation; distinct = digest including the edit itself.".to_string(),
        "C17" => "one run = one document of one of 11 kinds (signed block, layout, link, wrapper, rule, step, inspection, public key, signature, statement, predicate), damaged in one leaf in 20% of the runs, sent in 2 (quick) / 4 (thorough) re-spellings (whitespace style, \\uXXXX escapes of ASCII, member order), each decoded through 10-11 channels (from_str, from_slice, Json::from_slice, from_value, Json::deserialize, from_reader and Json::from_reader over a chunking / EINTR stream, from_reader with EIO at an offset, BufReader<File> on tmpfs with optional read(2) faults, read_to_string + from_str). Non-trivial = re-spelled or chunked or interrupted. Distinct = digest of kind, labels, outcome counts, spelling parameters.".to_string(),
        "C18" => "one run = one generated file-system history on tmpfs (directories, files of sizes around the 0 / 1 KiB / 8 KiB / 100 KiB boundaries, absolute and relative symbolic links to files, directories, other links, nothing, an ancestor), a path argument list (single, several, non-normalized, overlapping, absolute), strip prefixes (none, one, nested, colliding), algorithms (default, sha256, sha512, both, unknown), in 15-20% of the runs in_toto_run with a scripted actor that creates / appends / removes files and prints scripted bytes, in 15-30% read(2) faults (short, EINTR, EIO); 1 in 8 runs drives calculate_hashes directly through a simulated stream; 1 run in 5 makes another recording on the same thread right before the judged one (a path that does not exist, a directory with the same relative names and other content, a step whose command cannot be started). Oracle: independent walk + one-shot digests. Distinct = digest of labels, outcome class, tree shape class. PIPELINE RUNS (one run in sixty-four): the whole chain is carried out inside the simulator — 1-3 steps really executed with in_toto_run in their own workspaces on tmpfs (the command is a scripted actor process; the functionary names the workspace as '.', by absolute path with a strip-prefix, or by directory name from the parent), products handed to the next workspace by an artifact transport that may tamper with / inject / remove / rename a file, the signed links the library returns stored in the link directory, the last products delivered (through the transport again) to the verifier's working directory, in_toto_verify over it all, optionally with an inspection over the delivered product; rule lists derived from the flow (tight), perturbed, or random. Oracle: the reference model evaluated on snapshots the harness takes itself of every workspace before and after its command (own walk, one-shot digests), not on what the library recorded — everything else being valid by construction, the verdict must be Ok exactly if the model accepts every item; the recorded links must equal the snapshots (C18), no inspection may start after a step's rules failed (C08), the summary is the first step's materials and the last step's products (C15).".to_string(),
        _ => supply.to_string(),
    }
}

pub fn components(_check: &str) -> Value {
    json!({
        "real": ["in_toto (verifylib, runlib, rulelib, models, crypto, interchange::cjson)", "serde_json", "ring", "glob", "walkdir", "path-clean", "pem", "derp", "chrono parsing", "std::fs / std::process", "kernel tmpfs, fork/exec"],
        "stubbed": ["wall clock (clock_gettime symbol)", "hash-map entropy (getrandom symbol)", "bytes returned by read(2) on scratch files when armed", "step and inspection commands (scripted actor process)", "the other parties: owners, functionaries, attackers (harness code calling the library's public signing API)"],
        "not_controllable": ["ring's signing entropy (ECDSA nonce, RSA-PSS salt): signature bytes differ run to run, verdicts do not"],
    })
}

pub fn assumptions(_check: &str) -> Value {
    json!([
        "signature schemes are unforgeable: a changed message or signature value never verifies by accident",
        "ground truth about signature validity is symbolic (who signed which content, what was touched since) and uses the library's typed parser and PartialEq only to decide whether an edited document still carries the content that was signed",
        "the libc-symbol seams (clock_gettime, getrandom, read) are live in this toolchain; checked by the start-up self-test on every run",
        "sampling, not enumeration: a clean batch is evidence, not proof"
    ])
}

/// `scsim determinism [--seeds N] [--seed BASE] [check ids...]`: every listed check is run twice on the
/// same seeds, in different worker processes, at worker counts 4 and 16; the per-run event-log digests
/// (abstract world, fault sites, clock reads, getrandom draws, verdict strings with digit runs masked,
/// summaries, actor events, directory listings) must be identical.
pub fn determinism_main(args: &[String]) -> i32 {
    use crate::checks::Tier;
    use crate::runner::{run_check, CheckArgs};
    crate::install_quiet_panic_hook();
    if let Err(e) = crate::seams::selftest() {
        println!("HARNESS ERROR: {e}");
        return 2;
    }
    let mut seeds: u64 = 2000;
    let mut base: u64 = crate::runner::DEFAULT_SEED;
    let mut tier = Tier::Quick;
    let mut checks: Vec<String> = vec![];
    let mut i = 2;
    while i < args.len() {
        match args[i].as_str() {
            "--seeds" => {
                seeds = args.get(i + 1).and_then(|s| s.parse().ok()).unwrap_or(seeds);
                i += 1;
            }
            "--seed" => {
                base = args.get(i + 1).and_then(|s| s.parse().ok()).unwrap_or(base);
                i += 1;
            }
            "--tier" => {
                if args.get(i + 1).map(|s| s == "thorough").unwrap_or(false) {
                    tier = Tier::Thorough;
                }
                i += 1;
            }
            c => checks.push(c.to_string()),
        }
        i += 1;
    }
    if checks.is_empty() {
        checks = ["C01", "C02", "C03", "C04", "C05", "C06", "C07", "C08", "C09", "C13", "C14", "C15", "C17", "C18"].iter().map(|s| s.to_string()).collect();
    }
    let mut bad = 0;
    for c in &checks {
        let n = if matches!(c.as_str(), "C06" | "C08") { (seeds / 100).max(4) } else if c == "C05" { (seeds / 20).max(8) } else { seeds };
        let run = |workers: u64| {
            run_check(&CheckArgs { check: c.clone(), tier, seed: base, runs: n, workers, keep_log: true, write_evidence: false })
        };
        let a = run(4);
        let b = run(16);
        let mut diff = vec![];
        for (k, v) in &a.summary.log_digests {
            if b.summary.log_digests.get(k) != Some(v) {
                diff.push(*k);
            }
        }
        let missing = a.summary.log_digests.len() != b.summary.log_digests.len();
        println!(
            "{c}: {} seeds x 2 executions (4 and 16 workers), {} evaluations each: {}",
            n,
            a.summary.evaluations,
            if diff.is_empty() && !missing { "identical event logs".to_string() } else { format!("DIFFERENT at run indices {:?}", &diff[..diff.len().min(10)]) }
        );
        if !diff.is_empty() || missing {
            bad += 1;
        }
    }
    crate::exec::cleanup_process_scratch();
    if bad > 0 {
        println!("HARNESS ERROR: {bad} checks are not deterministic");
        2
    } else {
        println!("deterministic: every seed replayed to the same event log");
        0
    }
}
