//! Texts that go into the evidence files, and the determinism command.
use serde_json::{json, Value};

pub fn rule_text(check: &str) -> String {
    match check {
        _ => format!("one run = one seed of the {check} scenario: an accepting baseline world built by construction (rejected baselines are counted as vacuous and not judged), then 1-3 faults of the catalogue; a case is non-trivial when at least one fault fired and the root layout was still parseable; distinct = distinct digest of the abstract post-fault world shape (per step: threshold, number of counting signers, delegated evidence, lenient matches; failed necessary conditions; fault kinds; caller key-set size; file count; verdict class)"),
    }
}

pub fn components(_check: &str) -> Value {
    json!({
        "real": ["in_toto (verifylib, runlib, rulelib, models, crypto, interchange::cjson)", "serde_json", "ring", "glob", "walkdir", "path-clean", "pem", "derp", "chrono parsing", "std::fs / std::process", "kernel tmpfs, fork/exec"],
        "stubbed": ["wall clock (clock_gettime symbol)", "hash-map entropy (getrandom symbol)", "bytes returned by read(2) on scratch files when armed", "step and inspection commands (scripted actor process)", "the other parties: owners, functionaries, attackers (harness code calling the library's public signing API)"],
        "not_controllable": ["ring's signing entropy (ECDSA nonce, RSA-PSS salt): signature bytes differ run to run, verdicts do not"],
    })
}

pub fn assumptions(_check: &str) -> Value {
    json!([
        "signature schemes are unforgeable: a changed message or signature value never verifies by accident",
        "ground truth about signature validity is symbolic (who signed which content, what was touched since) and uses the library's typed parser and PartialEq only to decide whether an edited document still carries the content that was signed",
        "the libc-symbol seams (clock_gettime, getrandom, read) are live in this toolchain; checked by the start-up self-test on every run",
        "sampling, not enumeration: a clean batch is evidence, not proof"
    ])
}

pub fn determinism_main(_args: &[String]) -> i32 {
    0
}
