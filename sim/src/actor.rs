//! The scripted child process: every command the library is asked to run is
//! `[<scsim>, "actor", <id>]`. Real fork/exec, scripted behaviour.

use crate::exec::Scratch;
use crate::world::{ActorScript, ExitSpec, FsOp};
use std::io::Write;

pub fn actor_main(id: &str) -> i32 {
    let side = match std::env::var("SCSIM_SIDE") {
        Ok(s) => std::path::PathBuf::from(s),
        Err(_) => return 97,
    };
    let script: ActorScript = match std::fs::read(side.join("actors").join(format!("{}.json", id.replace('/', "_"))))
        .ok()
        .and_then(|b| serde_json::from_slice(&b).ok())
    {
        Some(s) => s,
        None => return 98,
    };
    let log = |line: String| {
        if let Ok(mut f) = std::fs::OpenOptions::new().create(true).append(true).open(side.join("events.log")) {
            let _ = f.write_all(line.as_bytes());
        }
    };
    log(format!("start {id}\n"));
    // what link files lay in the working directory when the command started (an earlier inspection's link is
    // dumped there by the verifier): one line, sorted
    {
        let mut seen: Vec<String> = std::fs::read_dir(".")
            .map(|d| d.filter_map(|e| e.ok()).filter_map(|e| e.file_name().into_string().ok()).filter(|n| n.ends_with(".link")).collect())
            .unwrap_or_default();
        seen.sort();
        if !seen.is_empty() {
            log(format!("saw {id} {}\n", seen.join(" ")));
        }
    }
    for op in &script.ops {
        match op {
            FsOp::Write { path, content } => {
                if let Some(p) = std::path::Path::new(path).parent() {
                    let _ = std::fs::create_dir_all(p);
                }
                let _ = std::fs::write(path, content);
            }
            FsOp::Append { path, content } => {
                if let Ok(mut f) = std::fs::OpenOptions::new().create(true).append(true).open(path) {
                    let _ = f.write_all(content.as_bytes());
                }
            }
            FsOp::Remove { path } => {
                let _ = std::fs::remove_file(path);
            }
            FsOp::Mkdir { path } => {
                let _ = std::fs::create_dir_all(path);
            }
            FsOp::TamperKeepStat { path } => {
                use std::os::unix::fs::MetadataExt;
                if let (Ok(md), Ok(mut bytes)) = (std::fs::metadata(path), std::fs::read(path)) {
                    if md.is_file() && !bytes.is_empty() {
                        for b in bytes.iter_mut() {
                            *b = b.wrapping_add(1);
                        }
                        let _ = std::fs::write(path, &bytes);
                        if let Ok(c) = std::ffi::CString::new(path.as_bytes()) {
                            let ts = [
                                libc::timespec { tv_sec: md.atime(), tv_nsec: md.atime_nsec() },
                                libc::timespec { tv_sec: md.mtime(), tv_nsec: md.mtime_nsec() },
                            ];
                            unsafe {
                                libc::utimensat(libc::AT_FDCWD, c.as_ptr(), ts.as_ptr(), 0);
                            }
                        }
                    }
                }
            }
        }
    }
    let _ = std::io::stdout().write_all(&script.stdout);
    let _ = std::io::stdout().flush();
    let _ = std::io::stderr().write_all(&script.stderr);
    match script.exit {
        ExitSpec::Code(c) => {
            log(format!("end {id} code {c}\n"));
            c
        }
        ExitSpec::Signal(s) => {
            log(format!("end {id} signal {s}\n"));
            unsafe {
                libc::kill(libc::getpid(), s);
            }
            std::thread::sleep(std::time::Duration::from_secs(5));
            99
        }
        ExitSpec::NotFound => 0,
    }
}

pub fn selftest(s: &Scratch) -> Result<(), String> {
    let a = ActorScript { id: "selftest".into(), ops: vec![], stdout: b"hi".to_vec(), stderr: vec![], exit: ExitSpec::Code(7) };
    std::fs::write(s.side().join("actors/selftest.json"), serde_json::to_vec(&a).unwrap()).map_err(|e| e.to_string())?;
    let out = std::process::Command::new(crate::world::self_exe())
        .args(["actor", "selftest"])
        .current_dir(s.work())
        .output()
        .map_err(|e| format!("actor does not start: {e}"))?;
    if out.status.code() != Some(7) || out.stdout != b"hi" || !s.events().iter().any(|l| l == "start selftest") {
        return Err(format!("actor round trip failed: status {:?}, stdout {:?}, events {:?}", out.status, out.stdout, s.events()));
    }
    let _ = std::fs::remove_file(s.side().join("events.log"));
    Ok(())
}
