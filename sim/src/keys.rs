//! Simulated parties' keys. Every key (and therefore every key id and every file name) is a function
//! of the run seed. ed25519 and ECDSA keys are derived from seed bytes; RSA keys are the two PKCS#8
//! fixtures copied from /repo/tests/rsa (2048 and 4096 bit), each usable under both PSS schemes.

use crate::prng::Rng;
use in_toto::crypto::{PrivateKey, PublicKey, SignatureScheme};
use ring::signature::KeyPair;
use serde::{Deserialize, Serialize};
use std::cell::RefCell;
use std::collections::BTreeMap;
use std::rc::Rc;

const RSA2048: &[u8] = include_bytes!("../fixtures/rsa-2048.pk8.der");
const RSA4096: &[u8] = include_bytes!("../fixtures/rsa-4096.pk8.der");

#[derive(Clone, Copy, Debug, PartialEq, Eq, PartialOrd, Ord, Serialize, Deserialize)]
pub enum KeyKind {
    Ed,
    EdPk8,
    Ecdsa,
    Rsa2048S256,
    Rsa2048S512,
    Rsa4096S256,
    Rsa4096S512,
    /// the RSA-2048 material declared with a signature scheme the library does not implement;
    /// nobody can make a valid signature for this identity
    RsaUnknown,
    /// an ECDSA public key built from its raw bytes (`PublicKey::from_ecdsa`): no keyid_hash_algorithms,
    /// another key id than the PKCS#8 import of the same key; it never signs
    EcdsaBare,
}

impl KeyKind {
    pub fn is_ed(self) -> bool {
        matches!(self, KeyKind::Ed | KeyKind::EdPk8)
    }
    pub fn deterministic_sig(self) -> bool {
        self.is_ed()
    }
    pub fn all() -> &'static [KeyKind] {
        &[
            KeyKind::Ed,
            KeyKind::EdPk8,
            KeyKind::Ecdsa,
            KeyKind::Rsa2048S256,
            KeyKind::Rsa2048S512,
            KeyKind::Rsa4096S256,
            KeyKind::Rsa4096S512,
        ]
    }
}

#[derive(Clone, Copy, Debug, PartialEq, Eq, PartialOrd, Ord, Serialize, Deserialize)]
pub struct KeySpec {
    pub kind: KeyKind,
    pub seed: u64,
}

pub struct Key {
    pub spec: KeySpec,
    pub private: PrivateKey,
    pub public: PublicKey,
    /// 64 hex digits
    pub id: String,
}

impl Key {
    pub fn prefix(&self) -> &str {
        &self.id[..8]
    }
    pub fn public_json(&self) -> serde_json::Value {
        serde_json::to_value(&self.public).expect("public key serializes")
    }
}

#[allow(deprecated)]
fn ecdsa_pk8(seed: u64) -> Vec<u8> {
    // P-256 private scalars must be in [1, n-1]; a draw outside is astronomically unlikely but
    // ring rejects it, so try successive stream positions.
    let mut r = Rng::stream(seed, "ecdsa-key");
    for _ in 0..8 {
        let bytes = r.bytes(32);
        let rng = ring::test::rand::FixedSliceRandom { bytes: &bytes };
        if let Ok(doc) = ring::signature::EcdsaKeyPair::generate_pkcs8(
            &ring::signature::ECDSA_P256_SHA256_ASN1_SIGNING,
            &rng,
        ) {
            return doc.as_ref().to_vec();
        }
    }
    panic!("harness: could not derive an ECDSA key");
}

fn ed_pair(seed: u64) -> (Vec<u8>, Vec<u8>) {
    let s = Rng::stream(seed, "ed-key").bytes(32);
    let kp = ring::signature::Ed25519KeyPair::from_seed_unchecked(&s).expect("ed25519 seed");
    (s, kp.public_key().as_ref().to_vec())
}

fn ed_pk8(seed: u64) -> Vec<u8> {
    // PKCS#8 v2 (RFC 5958) document as ring emits it: fixed prefix, seed, fixed middle, public key.
    // the same key material as KeyKind::Ed with this seed: the two kinds are one key under two key ids
    // (the PKCS#8 import adds keyid_hash_algorithms, which enter the id)
    let (s, p) = ed_pair(seed);
    let mut v = vec![
        0x30, 0x51, 0x02, 0x01, 0x01, 0x30, 0x05, 0x06, 0x03, 0x2b, 0x65, 0x70, 0x04, 0x22, 0x04, 0x20,
    ];
    v.extend_from_slice(&s);
    v.extend_from_slice(&[0x81, 0x21, 0x00]);
    v.extend_from_slice(&p);
    v
}

/// PKCS#8 private key document of a spec (for key-file fault injection).
pub fn rsa2048_pk8() -> &'static [u8] {
    RSA2048
}

pub fn pkcs8_of(spec: KeySpec) -> Vec<u8> {
    match spec.kind {
        KeyKind::Ed | KeyKind::EdPk8 => ed_pk8(spec.seed),
        KeyKind::Ecdsa | KeyKind::EcdsaBare => ecdsa_pk8(spec.seed),
        KeyKind::Rsa2048S256 | KeyKind::Rsa2048S512 | KeyKind::RsaUnknown => RSA2048.to_vec(),
        KeyKind::Rsa4096S256 | KeyKind::Rsa4096S512 => RSA4096.to_vec(),
    }
}

/// The private key object of a spec (callable from any thread; `key()` caches per thread).
pub fn make_private(spec: KeySpec) -> PrivateKey {
    match spec.kind {
        KeyKind::Ed => {
            let (s, p) = ed_pair(spec.seed);
            let mut both = s;
            both.extend_from_slice(&p);
            PrivateKey::from_ed25519(&both).expect("ed25519 key")
        }
        KeyKind::EdPk8 => PrivateKey::from_pkcs8(&ed_pk8(spec.seed), SignatureScheme::Ed25519).expect("ed25519 pk8"),
        KeyKind::Ecdsa => {
            PrivateKey::from_pkcs8(&ecdsa_pk8(spec.seed), SignatureScheme::EcdsaP256Sha256).expect("ecdsa key")
        }
        KeyKind::Rsa2048S256 => PrivateKey::from_pkcs8(RSA2048, SignatureScheme::RsaSsaPssSha256).expect("rsa"),
        KeyKind::Rsa2048S512 => PrivateKey::from_pkcs8(RSA2048, SignatureScheme::RsaSsaPssSha512).expect("rsa"),
        KeyKind::Rsa4096S256 => PrivateKey::from_pkcs8(RSA4096, SignatureScheme::RsaSsaPssSha256).expect("rsa"),
        KeyKind::Rsa4096S512 => PrivateKey::from_pkcs8(RSA4096, SignatureScheme::RsaSsaPssSha512).expect("rsa"),
        KeyKind::RsaUnknown => PrivateKey::from_pkcs8(RSA2048, SignatureScheme::RsaSsaPssSha256).expect("rsa"),
        KeyKind::EcdsaBare => PrivateKey::from_pkcs8(&ecdsa_pk8(spec.seed), SignatureScheme::EcdsaP256Sha256).expect("ecdsa key"),
    }
}

pub fn make_key(spec: KeySpec) -> Key {
    let private = make_private(spec);
    let mut public = private.public().clone();
    if spec.kind == KeyKind::EcdsaBare {
        public = PublicKey::from_ecdsa(public.as_bytes().to_vec()).expect("bare ecdsa key");
    }
    if spec.kind == KeyKind::RsaUnknown {
        let spki = public.as_spki().expect("spki");
        public = PublicKey::from_spki(&spki, SignatureScheme::Unknown("rsassa-pss-sha384".into())).expect("unknown-scheme key");
    }
    let id = serde_json::to_value(public.key_id()).unwrap().as_str().unwrap().to_string();
    Key { spec, private, public, id }
}

thread_local! {
    static CACHE: RefCell<BTreeMap<KeySpec, Rc<Key>>> = RefCell::new(BTreeMap::new());
}

/// Keys are cached per thread (RSA key parsing costs milliseconds).
pub fn key(spec: KeySpec) -> Rc<Key> {
    let spec = normalize(spec);
    CACHE.with(|c| {
        let mut c = c.borrow_mut();
        if c.len() > 4096 {
            c.clear();
        }
        c.entry(spec).or_insert_with(|| Rc::new(make_key(spec))).clone()
    })
}

/// RSA identities do not depend on the seed.
pub fn normalize(mut spec: KeySpec) -> KeySpec {
    if matches!(
        spec.kind,
        KeyKind::Rsa2048S256 | KeyKind::Rsa2048S512 | KeyKind::Rsa4096S256 | KeyKind::Rsa4096S512 | KeyKind::RsaUnknown
    ) {
        spec.seed = 0;
    }
    spec
}

/// Draw `n` pairwise distinct key specs. `ed_only` keeps everything byte-reproducible.
pub fn draw_keys(r: &mut Rng, n: usize, ed_only: bool, allow_rsa: bool) -> Vec<KeySpec> {
    let mut out: Vec<KeySpec> = Vec::new();
    while out.len() < n {
        let kind = if ed_only {
            if r.chance(1, 6) {
                KeyKind::EdPk8
            } else {
                KeyKind::Ed
            }
        } else {
            match r.weighted(&[40, 10, 25, if allow_rsa { 25 } else { 0 }]) {
                0 => KeyKind::Ed,
                1 => KeyKind::EdPk8,
                2 => KeyKind::Ecdsa,
                _ => *r.pick(&[
                    KeyKind::Rsa2048S256,
                    KeyKind::Rsa2048S512,
                    KeyKind::Rsa4096S256,
                    KeyKind::Rsa4096S512,
                ]),
            }
        };
        let spec = normalize(KeySpec { kind, seed: r.next() >> 16 });
        if !out.contains(&spec) {
            out.push(spec);
        }
    }
    out
}
