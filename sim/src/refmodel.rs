//! Executable reference model (DESIGN Appendix A). No dependency on `in_toto`.
//!  * fnmatch-style matcher for the portable glob subset
//!  * the specification's artifact-rule algorithm
//!  * RFC 3339 -> (seconds, nanoseconds) from the civil-date formula

use std::collections::{BTreeMap, BTreeSet};

pub type Digests = BTreeMap<String, String>;
pub type Artifacts = BTreeMap<String, Digests>;

// ---------------------------------------------------------------------------------------------
// glob
// ---------------------------------------------------------------------------------------------
#[derive(Debug, Clone, PartialEq)]
enum Tok {
    Lit(char),
    Any,
    Star,
    Class { neg: bool, items: Vec<(char, char)> },
}

/// `None` = the pattern cannot be interpreted (unclosed `[`, `**` glued to other characters).
fn compile(p: &str) -> Option<Vec<Tok>> {
    let cs: Vec<char> = p.chars().collect();
    let mut out = vec![];
    let mut i = 0;
    while i < cs.len() {
        match cs[i] {
            '?' => {
                out.push(Tok::Any);
                i += 1;
            }
            '*' => {
                let mut j = i;
                while j < cs.len() && cs[j] == '*' {
                    j += 1;
                }
                if j - i >= 2 {
                    // `**` must be a whole path component
                    let left_ok = i == 0 || cs[i - 1] == '/';
                    let right_ok = j == cs.len() || cs[j] == '/';
                    if !left_ok || !right_ok || j - i > 2 {
                        return None;
                    }
                }
                out.push(Tok::Star);
                i = j;
            }
            '[' => {
                // find closing bracket; a ']' directly after '[' or '[!' is literal
                let mut j = i + 1;
                let mut neg = false;
                if j < cs.len() && cs[j] == '!' {
                    neg = true;
                    j += 1;
                }
                let start = j;
                if j < cs.len() && cs[j] == ']' {
                    j += 1;
                }
                while j < cs.len() && cs[j] != ']' {
                    j += 1;
                }
                if j >= cs.len() {
                    return None;
                }
                let body = &cs[start..j];
                let mut items = vec![];
                let mut k = 0;
                while k < body.len() {
                    if k + 2 < body.len() && body[k + 1] == '-' {
                        items.push((body[k], body[k + 2]));
                        k += 3;
                    } else {
                        items.push((body[k], body[k]));
                        k += 1;
                    }
                }
                out.push(Tok::Class { neg, items });
                i = j + 1;
            }
            c => {
                out.push(Tok::Lit(c));
                i += 1;
            }
        }
    }
    Some(out)
}

fn m(toks: &[Tok], s: &[char]) -> bool {
    if toks.is_empty() {
        return s.is_empty();
    }
    match &toks[0] {
        Tok::Star => {
            for k in 0..=s.len() {
                if m(&toks[1..], &s[k..]) {
                    return true;
                }
            }
            false
        }
        Tok::Any => !s.is_empty() && m(&toks[1..], &s[1..]),
        Tok::Lit(c) => !s.is_empty() && s[0] == *c && m(&toks[1..], &s[1..]),
        Tok::Class { neg, items } => {
            if s.is_empty() {
                return false;
            }
            let hit = items.iter().any(|(a, b)| *a <= s[0] && s[0] <= *b);
            hit != *neg && m(&toks[1..], &s[1..])
        }
    }
}

pub fn interpretable(pattern: &str) -> bool {
    compile(pattern).is_some()
}

/// `None` when the pattern cannot be interpreted.
pub fn glob(pattern: &str, path: &str) -> Option<bool> {
    let t = compile(pattern)?;
    let s: Vec<char> = path.chars().collect();
    Some(m(&t, &s))
}

/// Is `p` inside the subset on which fnmatch, the specification and the `glob` crate agree?
/// (no `**`, no backslash, no `[` at all unless well-formed simple class without `]`/`^` inside)
pub fn portable(pattern: &str) -> bool {
    if pattern.contains("**") || pattern.contains('\\') {
        return false;
    }
    let cs: Vec<char> = pattern.chars().collect();
    let mut i = 0;
    while i < cs.len() {
        if cs[i] == '[' {
            let mut j = i + 1;
            if j < cs.len() && cs[j] == '!' {
                j += 1;
            }
            let start = j;
            while j < cs.len() && cs[j] != ']' {
                if cs[j] == '[' || cs[j] == '^' || cs[j] == '/' {
                    return false;
                }
                j += 1;
            }
            if j >= cs.len() || j == start {
                return false;
            }
            // ranges must be ascending and complete
            let body = &cs[start..j];
            let mut k = 0;
            while k < body.len() {
                if body[k] == '-' {
                    return false;
                }
                if k + 1 < body.len() && body[k + 1] == '-' {
                    if k + 2 >= body.len() || body[k + 2] < body[k] || body[k + 2] == '-' {
                        return false;
                    }
                    k += 3;
                } else {
                    k += 1;
                }
            }
            i = j + 1;
        } else if cs[i] == ']' {
            return false;
        } else {
            i += 1;
        }
    }
    true
}

// ---------------------------------------------------------------------------------------------
// artifact rules
// ---------------------------------------------------------------------------------------------
#[derive(Clone, Debug, PartialEq)]
pub enum Rule {
    Create(String),
    Delete(String),
    Modify(String),
    Allow(String),
    Require(String),
    Disallow(String),
    Match { pattern: String, src: Option<String>, products: bool, dst: Option<String>, from: String },
}

pub fn parse_rule(r: &[String]) -> Option<Rule> {
    if r.len() < 2 {
        return None;
    }
    let p = r[1].clone();
    match (r[0].as_str(), r.len()) {
        ("CREATE", 2) => Some(Rule::Create(p)),
        ("DELETE", 2) => Some(Rule::Delete(p)),
        ("MODIFY", 2) => Some(Rule::Modify(p)),
        ("ALLOW", 2) => Some(Rule::Allow(p)),
        ("REQUIRE", 2) => Some(Rule::Require(p)),
        ("DISALLOW", 2) => Some(Rule::Disallow(p)),
        ("MATCH", _) => {
            let mut i = 2;
            let mut src = None;
            if r.get(i).map(|s| s.as_str()) == Some("IN") {
                src = Some(r.get(i + 1)?.clone());
                i += 2;
            }
            if r.get(i).map(|s| s.as_str()) != Some("WITH") {
                return None;
            }
            let products = match r.get(i + 1).map(|s| s.as_str()) {
                Some("PRODUCTS") => true,
                Some("MATERIALS") => false,
                _ => return None,
            };
            i += 2;
            let mut dst = None;
            if r.get(i).map(|s| s.as_str()) == Some("IN") {
                dst = Some(r.get(i + 1)?.clone());
                i += 2;
            }
            if r.get(i).map(|s| s.as_str()) != Some("FROM") {
                return None;
            }
            let from = r.get(i + 1)?.clone();
            if r.len() != i + 2 {
                return None;
            }
            Some(Rule::Match { pattern: p, src, products, dst, from })
        }
        _ => None,
    }
}

#[derive(Clone, Debug, Default)]
pub struct LinkArts {
    pub materials: Artifacts,
    pub products: Artifacts,
}

#[derive(Debug, Clone, PartialEq)]
pub enum RuleVerdict {
    Accept,
    Reject(String),
}

/// Apply one rule list to one artifact set of one item. `links` holds the (representative) link of
/// every item that has one, by name.
pub fn apply_rules(
    rules: &[Rule],
    on_products: bool,
    item: &LinkArts,
    links: &BTreeMap<String, LinkArts>,
) -> RuleVerdict {
    let arts = if on_products { &item.products } else { &item.materials };
    let mut queue: BTreeSet<String> = arts.keys().cloned().collect();
    let mats: BTreeSet<&String> = item.materials.keys().collect();
    let prods: BTreeSet<&String> = item.products.keys().collect();
    let created: BTreeSet<String> = prods.difference(&mats).map(|s| (*s).clone()).collect();
    let deleted: BTreeSet<String> = mats.difference(&prods).map(|s| (*s).clone()).collect();
    let modified: BTreeSet<String> = mats
        .intersection(&prods)
        .filter(|p| item.materials[**p] != item.products[**p])
        .map(|s| (*s).clone())
        .collect();
    for (ri, rule) in rules.iter().enumerate() {
        let pat = match rule {
            Rule::Create(p) | Rule::Delete(p) | Rule::Modify(p) | Rule::Allow(p) | Rule::Require(p) | Rule::Disallow(p) => p,
            Rule::Match { pattern, .. } => pattern,
        };
        let filtered: BTreeSet<String> =
            queue.iter().filter(|p| glob(pat, p).unwrap_or(false)).cloned().collect();
        let consumed: BTreeSet<String> = match rule {
            Rule::Create(_) => filtered.intersection(&created).cloned().collect(),
            Rule::Delete(_) => filtered.intersection(&deleted).cloned().collect(),
            Rule::Modify(_) => filtered.intersection(&modified).cloned().collect(),
            Rule::Allow(_) => filtered,
            Rule::Require(p) => {
                if !queue.contains(p) {
                    return RuleVerdict::Reject(format!("rule #{ri} REQUIRE {p}: not in queue"));
                }
                BTreeSet::new()
            }
            Rule::Disallow(p) => {
                if !interpretable(p) {
                    return RuleVerdict::Reject(format!("rule #{ri} DISALLOW {p}: pattern cannot be interpreted"));
                }
                if !filtered.is_empty() {
                    return RuleVerdict::Reject(format!("rule #{ri} DISALLOW {p}: matches {:?}", filtered));
                }
                BTreeSet::new()
            }
            Rule::Match { pattern, src, products, dst, from } => {
                let mut c = BTreeSet::new();
                if let Some(other) = links.get(from) {
                    let dest = if *products { &other.products } else { &other.materials };
                    for p in &queue {
                        let base: &str = match src {
                            None => p,
                            Some(s) => {
                                let pre = format!("{}/", s);
                                match p.strip_prefix(&pre) {
                                    Some(b) => b,
                                    None => continue,
                                }
                            }
                        };
                        if glob(pattern, base) != Some(true) {
                            continue;
                        }
                        let d = match dst {
                            None => base.to_string(),
                            Some(dd) => format!("{}/{}", dd, base),
                        };
                        if let Some(dig) = dest.get(&d) {
                            if *dig == arts[p] {
                                c.insert(p.clone());
                            }
                        }
                    }
                }
                c
            }
        };
        queue = queue.difference(&consumed).cloned().collect();
    }
    RuleVerdict::Accept
}

/// Both rule lists of one item, materials first.
pub fn apply_item(
    exp_mat: &[Rule],
    exp_prod: &[Rule],
    name: &str,
    links: &BTreeMap<String, LinkArts>,
) -> RuleVerdict {
    let item = match links.get(name) {
        Some(i) => i,
        None => return RuleVerdict::Reject(format!("no link for {name}")),
    };
    match apply_rules(exp_mat, false, item, links) {
        RuleVerdict::Accept => apply_rules(exp_prod, true, item, links),
        r => r,
    }
}

// ---------------------------------------------------------------------------------------------
// RFC 3339
// ---------------------------------------------------------------------------------------------
fn days_from_civil(y: i64, m: i64, d: i64) -> i64 {
    let y = if m <= 2 { y - 1 } else { y };
    let era = if y >= 0 { y } else { y - 399 } / 400;
    let yoe = y - era * 400;
    let mp = (m + 9) % 12;
    let doy = (153 * mp + 2) / 5 + d - 1;
    let doe = yoe * 365 + yoe / 4 - yoe / 100 + doy;
    era * 146097 + doe - 719468
}

/// `YYYY-MM-DDThh:mm:ss[.f...](Z|+hh:mm|-hh:mm)` -> (unix seconds, nanoseconds). `None` if malformed.
pub fn rfc3339_instant(s: &str) -> Option<(i64, u32)> {
    let b = s.as_bytes();
    if b.len() < 20 {
        return None;
    }
    let num = |r: std::ops::Range<usize>| -> Option<i64> {
        let t = s.get(r)?;
        if t.is_empty() || !t.bytes().all(|c| c.is_ascii_digit()) {
            return None;
        }
        t.parse().ok()
    };
    let (y, mo, d) = (num(0..4)?, num(5..7)?, num(8..10)?);
    if b[4] != b'-' || b[7] != b'-' || !(b[10] == b'T' || b[10] == b't' || b[10] == b' ') {
        return None;
    }
    let (h, mi, se) = (num(11..13)?, num(14..16)?, num(17..19)?);
    if b[13] != b':' || b[16] != b':' {
        return None;
    }
    let mut i = 19;
    let mut nanos: u64 = 0;
    if b.get(i) == Some(&b'.') {
        i += 1;
        let st = i;
        let mut scale = 100_000_000u64;
        while i < b.len() && b[i].is_ascii_digit() {
            nanos += (b[i] - b'0') as u64 * scale;
            scale /= 10;
            i += 1;
        }
        if i == st {
            return None;
        }
    }
    let off: i64 = match b.get(i)? {
        b'Z' | b'z' => {
            if i + 1 != b.len() {
                return None;
            }
            0
        }
        sign @ (b'+' | b'-') => {
            if i + 6 != b.len() || b[i + 3] != b':' {
                return None;
            }
            let oh = num(i + 1..i + 3)?;
            let om = num(i + 4..i + 6)?;
            let o = oh * 3600 + om * 60;
            if *sign == b'+' {
                o
            } else {
                -o
            }
        }
        _ => return None,
    };
    if !(1..=12).contains(&mo) || !(1..=31).contains(&d) || h > 23 || mi > 59 || se > 60 {
        return None;
    }
    let secs = days_from_civil(y, mo, d) * 86400 + h * 3600 + mi * 60 + se - off;
    Some((secs, nanos as u32))
}

/// (unix seconds) -> `YYYY-MM-DDThh:mm:ss` in UTC, for years 0..=9999
pub fn civil_from_secs(secs: i64) -> (i64, i64, i64, i64, i64, i64) {
    let days = secs.div_euclid(86400);
    let rem = secs.rem_euclid(86400);
    let z = days + 719468;
    let era = if z >= 0 { z } else { z - 146096 } / 146097;
    let doe = z - era * 146097;
    let yoe = (doe - doe / 1460 + doe / 36524 - doe / 146096) / 365;
    let y = yoe + era * 400;
    let doy = doe - (365 * yoe + yoe / 4 - yoe / 100);
    let mp = (5 * doy + 2) / 153;
    let d = doy - (153 * mp + 2) / 5 + 1;
    let m = if mp < 10 { mp + 3 } else { mp - 9 };
    let y = if m <= 2 { y + 1 } else { y };
    (y, m, d, rem / 3600, (rem % 3600) / 60, rem % 60)
}

/// Render an instant in a chosen UTC-offset notation (offset in minutes; `None` = `Z`), optional fraction text.
pub fn render_rfc3339(secs: i64, offset_min: Option<i64>, frac: &str) -> String {
    let off = offset_min.unwrap_or(0) * 60;
    let (y, m, d, h, mi, s) = civil_from_secs(secs + off);
    let tz = match offset_min {
        None => "Z".to_string(),
        Some(o) => format!("{}{:02}:{:02}", if o < 0 { '-' } else { '+' }, o.abs() / 60, o.abs() % 60),
    };
    format!("{:04}-{:02}-{:02}T{:02}:{:02}:{:02}{}{}", y, m, d, h, mi, s, frac, tz)
}

#[cfg(test)]
mod t {
    use super::*;
    #[test]
    fn time() {
        assert_eq!(rfc3339_instant("1970-01-01T00:00:00Z"), Some((0, 0)));
        assert_eq!(rfc3339_instant("2001-09-09T01:46:40Z"), Some((1_000_000_000, 0)));
        assert_eq!(rfc3339_instant("2001-09-09T07:16:40.5+05:30"), Some((1_000_000_000, 500_000_000)));
        assert_eq!(render_rfc3339(1_000_000_000, Some(330), ".5"), "2001-09-09T07:16:40.5+05:30");
        assert_eq!(render_rfc3339(1_000_000_000, None, ""), "2001-09-09T01:46:40Z");
        for s in [0i64, 86399, 951782400, 4102444800, 253402300799] {
            assert_eq!(rfc3339_instant(&render_rfc3339(s, Some(-660), "")), Some((s, 0)));
        }
    }
    #[test]
    fn globs() {
        assert_eq!(glob("*", "a/b"), Some(true));
        assert_eq!(glob("a?c", "a/c"), Some(true));
        assert_eq!(glob("[a-c]x", "bx"), Some(true));
        assert_eq!(glob("[!a-c]x", "bx"), Some(false));
        assert_eq!(glob("[", "x"), None);
        assert_eq!(glob("a**b", "x"), None);
        assert_eq!(glob("foo", "foo"), Some(true));
        assert_eq!(glob("foo", "bar"), Some(false));
    }
}
