//! Simulated byte streams for the library's public `Read` / `Write` parameters: PRNG-chosen chunk
//! sizes (biased to 1, 2, 1023, 1024, 1025), interleaved `ErrorKind::Interrupted`, hard failure at
//! a chosen offset. Counters say what actually fired.

use crate::prng::Rng;
use std::io::{self, Read, Write};

#[derive(Clone, Debug, Default)]
pub struct IoStats {
    pub calls: usize,
    pub short: usize,
    pub eintr: usize,
    pub eio: usize,
}

fn chunk(r: &mut Rng, want: usize) -> usize {
    let c = match r.weighted(&[25, 10, 10, 10, 10, 10, 25]) {
        0 => 1,
        1 => 2,
        2 => 1023,
        3 => 1024,
        4 => 1025,
        5 => 7,
        _ => 1 + r.below(4096) as usize,
    };
    c.min(want).max(1)
}

pub struct SimReader<'a> {
    pub data: &'a [u8],
    pub pos: usize,
    pub r: Rng,
    pub eintr_pct: u64,
    pub fail_at: Option<usize>,
    pub chunked: bool,
    pub stats: IoStats,
    eintr_run: usize,
}

impl<'a> SimReader<'a> {
    pub fn new(data: &'a [u8], seed: u64, chunked: bool, eintr_pct: u64, fail_at: Option<usize>) -> Self {
        SimReader { data, pos: 0, r: Rng::stream(seed, "io"), eintr_pct, fail_at, chunked, stats: IoStats::default(), eintr_run: 0 }
    }
}

impl<'a> Read for SimReader<'a> {
    fn read(&mut self, buf: &mut [u8]) -> io::Result<usize> {
        self.stats.calls += 1;
        if buf.is_empty() {
            return Ok(0);
        }
        if let Some(f) = self.fail_at {
            if self.pos >= f {
                self.stats.eio += 1;
                return Err(io::Error::new(io::ErrorKind::Other, "simulated EIO"));
            }
        }
        // never starve the caller: at most 3 interruptions in a row
        if self.eintr_run < 3 && self.r.chance(self.eintr_pct, 100) {
            self.eintr_run += 1;
            self.stats.eintr += 1;
            return Err(io::Error::new(io::ErrorKind::Interrupted, "simulated EINTR"));
        }
        self.eintr_run = 0;
        let left = self.data.len() - self.pos;
        if left == 0 {
            return Ok(0);
        }
        let mut n = left.min(buf.len());
        if let Some(f) = self.fail_at {
            n = n.min(f - self.pos).max(1);
        }
        if self.chunked {
            let c = chunk(&mut self.r, n);
            if c < n {
                self.stats.short += 1;
            }
            n = c;
        }
        buf[..n].copy_from_slice(&self.data[self.pos..self.pos + n]);
        self.pos += n;
        Ok(n)
    }
}

pub struct SimWriter {
    pub out: Vec<u8>,
    pub r: Rng,
    pub eintr_pct: u64,
    pub fail_at: Option<usize>,
    pub chunked: bool,
    pub stats: IoStats,
    eintr_run: usize,
}

impl SimWriter {
    pub fn new(seed: u64, chunked: bool, eintr_pct: u64, fail_at: Option<usize>) -> Self {
        SimWriter { out: vec![], r: Rng::stream(seed, "iow"), eintr_pct, fail_at, chunked, stats: IoStats::default(), eintr_run: 0 }
    }
}

impl Write for SimWriter {
    fn write(&mut self, buf: &[u8]) -> io::Result<usize> {
        self.stats.calls += 1;
        if buf.is_empty() {
            return Ok(0);
        }
        if let Some(f) = self.fail_at {
            if self.out.len() >= f {
                self.stats.eio += 1;
                return Err(io::Error::new(io::ErrorKind::Other, "simulated ENOSPC"));
            }
        }
        if self.eintr_run < 3 && self.r.chance(self.eintr_pct, 100) {
            self.eintr_run += 1;
            self.stats.eintr += 1;
            return Err(io::Error::new(io::ErrorKind::Interrupted, "simulated EINTR"));
        }
        self.eintr_run = 0;
        let mut n = buf.len();
        if let Some(f) = self.fail_at {
            n = n.min(f - self.out.len()).max(1);
        }
        if self.chunked {
            let c = chunk(&mut self.r, n);
            if c < n {
                self.stats.short += 1;
            }
            n = c;
        }
        self.out.extend_from_slice(&buf[..n]);
        Ok(n)
    }
    fn flush(&mut self) -> io::Result<()> {
        Ok(())
    }
}
