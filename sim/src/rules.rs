//! C03: generated rule lists over step histories with in-transit artifact faults, judged both ways
//! against the reference model of the specification's rule algorithm (refmodel.rs). The world is a
//! supply-chain trace whose every other stage passes by construction (one valid authorized link per
//! step), so the verifier's verdict is the rule engine's verdict.

use crate::checks::{exec_supply, RunRecord, Tier};
use crate::exec::Scratch;
use crate::gen;
use crate::keys::{KeyKind, KeySpec};
use crate::oracle::Finding;
use crate::prng::Rng;
use crate::refmodel;
use crate::supply::SupplyTrace;
use crate::world::*;
use serde::{Deserialize, Serialize};
use std::collections::BTreeMap;

#[derive(Clone, Debug, Serialize, Deserialize, PartialEq)]
pub struct RulesTrace {}

const UNIVERSE: &[&str] = &[".hidden", "src/.cfg", "foo", "bar", "baz", "src/a", "src/b", "src/x/c", "src/foo", "out/a", "out/b", "out/foo", "dst/a", "dst/foo", "a.c", "b.h", "x/y/z", "Foo", "FOO", "src/A", "A.C", "out/Foo"];
const PATTERNS: &[&str] = &["*", "foo", "bar", "src/*", "*.c", "src/a", "?ar", "[fb]oo", "[!f]oo", "out/*", "nothing", "a.c", "src/x/*", "dst/*", "a", "b", "*/a", "ba?", "x/y/z", "[a-c].[ch]", "~*", "src/?bersicht", "*/~*", "Foo", "F*", "src/A", "*.C"];
const PREFIXES: &[&str] = &["src", "out", "dst", "src/x", "x/y", "nowhere", "src.d", "src-x"];
/// names whose bytes sort in unusual places relative to the prefixes (before `/`, after `~`, beyond ASCII)
const ODD_NAMES: &[&str] = &["src/~lock", "src/übersicht", "out/~", "dst/é", "~", "ünï", "src0", "src.d/a", "src-x/a", "out/a b", "src/~", "dst/~foo", "out/ünï"];

fn pick_name(r: &mut Rng) -> &'static str {
    if r.chance(1, 6) {
        *r.pick(ODD_NAMES)
    } else {
        *r.pick(UNIVERSE)
    }
}

fn arts(r: &mut Rng, n: usize, ctr: &mut u64) -> Artifacts {
    let mut a = Artifacts::new();
    for _ in 0..n {
        *ctr += 1;
        a.insert(pick_name(r).to_string(), gen::digest_of(*ctr % 7, false));
    }
    a
}

fn rule(r: &mut Rng, names: &[String]) -> Rule {
    let pat = r.pick(PATTERNS).to_string();
    match r.weighted(&[10, 8, 10, 14, 8, 10, 40]) {
        0 => vec!["CREATE".into(), pat],
        1 => vec!["DELETE".into(), pat],
        2 => vec!["MODIFY".into(), pat],
        3 => vec!["ALLOW".into(), pat],
        // (now and then a name that is not a well-formed pattern: REQUIRE takes it literally all the same)
        4 => vec!["REQUIRE".into(), if r.chance(1, 8) { r.pick(&["release[1.tar", "***", "lib**name.so", "[", "a[b", "x**"]).to_string() } else { pick_name(r).to_string() }],
        5 => vec!["DISALLOW".into(), if r.chance(1, 12) { r.pick(&["[", "a**b", "**a", "[!"]).to_string() } else { pat }],
        _ => {
            let mut v: Rule = vec!["MATCH".into(), r.pick(&["*", "a", "foo", "b", "?", "*.c", "x/c", "c", "z", "Foo", "A", "f*"]).to_string()];
            if r.chance(1, 2) {
                v.push("IN".into());
                v.push(r.pick(PREFIXES).to_string());
            }
            v.push("WITH".into());
            v.push(if r.chance(1, 2) { "PRODUCTS".into() } else { "MATERIALS".into() });
            if r.chance(1, 2) {
                v.push("IN".into());
                v.push(r.pick(PREFIXES).to_string());
            }
            v.push("FROM".into());
            v.push(if r.chance(1, 10) { "ghost-step".to_string() } else { r.pick(names).clone() });
            v
        }
    }
}

fn rule_list(r: &mut Rng, names: &[String]) -> Vec<Rule> {
    let n = r.weighted(&[10, 15, 20, 20, 15, 10, 10]);
    let mut v: Vec<Rule> = (0..n).map(|_| rule(r, names)).collect();
    match r.weighted(&[45, 25, 30]) {
        0 => {}
        1 => v.push(vec!["DISALLOW".into(), "*".into()]),
        _ => v.push(vec!["ALLOW".into(), "*".into()]),
    }
    v
}

pub fn gen_rules_world(seed: u64) -> SupplyTrace {
    let mut r = Rng::stream(seed, "rules");
    let n = 1 + r.weighted(&[30, 45, 25]);
    let keys: Vec<KeySpec> = (0..n + 1).map(|i| KeySpec { kind: KeyKind::Ed, seed: (seed % 97) * 10 + i as u64 }).collect();
    let names: Vec<String> = (0..n).map(|i| format!("s{i}")).collect();
    let mut ctr = r.below(5);
    let both = r.chance(1, 4);
    let mut steps = vec![];
    let mut files = vec![];
    let mut labels = vec![];
    let mut prev_products: Option<Artifacts> = None;
    for i in 0..n {
        // materials: what the previous step produced (shifted under a prefix now and then), with in-transit faults
        let mut mats = match &prev_products {
            Some(p) if r.chance(3, 4) => {
                let mut m = Artifacts::new();
                let shift = if r.chance(1, 3) { Some(*r.pick(PREFIXES)) } else { None };
                for (k, v) in p {
                    let nk = match shift {
                        Some(s) => format!("{}/{}", s, k.rsplit('/').next().unwrap_or(k)),
                        None => k.clone(),
                    };
                    m.insert(nk, v.clone());
                }
                m
            }
            _ => {
                let n = r.below(4) as usize;
                arts(&mut r, n, &mut ctr)
            }
        };
        if prev_products.is_some() {
            match r.below(9) {
                8 if !mats.is_empty() => {
                    // the artifact arrives with a digest under ANOTHER algorithm only (the producer recorded
                    // sha256, the consumer sha512): nothing says it is the same file
                    let k = mats.keys().nth(r.idx(mats.len())).unwrap().clone();
                    if let Some(d) = mats.get_mut(&k) {
                        d.clear();
                        d.insert("sha512".into(), gen::sha512_hex(k.as_bytes()));
                    }
                    labels.push("A-ALG-DISJOINT".to_string());
                }
                0 if !mats.is_empty() => {
                    let k = mats.keys().nth(r.idx(mats.len())).unwrap().clone();
                    mats.insert(k, gen::digest_of(900 + ctr, false));
                    labels.push("A-TAMPER".to_string());
                }
                5 if !mats.is_empty() => {
                    // a digest cut short (a prefix of the true one) or emptied
                    let k = mats.keys().nth(r.idx(mats.len())).unwrap().clone();
                    if let Some(d) = mats.get_mut(&k) {
                        let h = d.get("sha256").cloned().unwrap_or_default();
                        let cut = if r.chance(1, 3) { 0 } else { (h.len() / 4) * 2 };
                        d.insert("sha256".into(), h[..cut].to_string());
                    }
                    labels.push("A-DIGEST-PREFIX".to_string());
                }
                4 if !mats.is_empty() && both => {
                    // tampered in one of its two digests only
                    let k = mats.keys().nth(r.idx(mats.len())).unwrap().clone();
                    if let Some(d) = mats.get_mut(&k) {
                        d.insert("sha512".into(), gen::sha512_hex(b"tampered"));
                    }
                    labels.push("A-TAMPER-ONE-DIGEST".to_string());
                }
                1 => {
                    mats.insert(pick_name(&mut r).to_string(), gen::digest_of(800 + ctr, false));
                    labels.push("A-INJECT".to_string());
                }
                2 if !mats.is_empty() => {
                    let k = mats.keys().nth(r.idx(mats.len())).unwrap().clone();
                    mats.remove(&k);
                    labels.push("A-REMOVE".to_string());
                }
                3 if !mats.is_empty() => {
                    let k = mats.keys().nth(r.idx(mats.len())).unwrap().clone();
                    let v = mats.remove(&k).unwrap();
                    mats.insert(pick_name(&mut r).to_string(), v);
                    labels.push("A-RENAME".to_string());
                }
                _ => {}
            }
        }
        // products: unchanged / modified / deleted / created
        let mut prods = Artifacts::new();
        for (k, v) in &mats {
            match r.below(4) {
                0 => {}
                1 => {
                    ctr += 1;
                    prods.insert(k.clone(), gen::digest_of(100 + ctr % 5, false));
                }
                _ => {
                    prods.insert(k.clone(), v.clone());
                }
            }
        }
        for _ in 0..r.below(3) {
            ctr += 1;
            prods.insert(pick_name(&mut r).to_string(), gen::digest_of(ctr % 7, false));
        }
        if both {
            for a in [&mut mats, &mut prods] {
                for (p, d) in a.iter_mut() {
                    if !d.contains_key("sha512") {
                        let h = d.get("sha256").cloned().unwrap_or_default();
                        d.insert("sha512".into(), gen::sha512_hex(format!("{p}{h}").as_bytes()));
                    }
                }
            }
        }
        steps.push(StepSpec { name: names[i].clone(), threshold: 1, pubkeys: vec![i + 1], exp_mat: rule_list(&mut r, &names), exp_prod: rule_list(&mut r, &names), cmd: vec![] });
        let link = LinkSpec { name: names[i].clone(), materials: mats, products: prods.clone(), stdout: Some(String::new()), stderr: Some(String::new()), retval: Some(0), other: BTreeMap::new(), command: vec![], env: None };
        files.push(FileSpec { name: gen::link_name(&names[i], &keys, i + 1), body: Body::Link(link), doc: DocSpec { signers: vec![i + 1], ops: vec![], pretty: false } });
        prev_products = Some(prods);
    }
    // a relay built on purpose: one artifact with an unusual base name goes from step i-1 (products, below
    // a destination prefix or not) to step i (materials, below a source prefix or not); the decision of
    // step i's material rules hinges on whether its MATCH rule consumes exactly that artifact
    if n >= 2 && r.chance(1, 5) {
        let i = 1 + r.idx(n - 1);
        let base = *r.pick(&["~lock", "übersicht", "~", "é", "ünï", "~foo", "zz", "a b", "Ω", "-dash", ".dot", "~~", "\u{7f}del", "a", "x.y.z"]);
        let srcp = if r.chance(3, 4) { Some(*r.pick(PREFIXES)) } else { None };
        let dstp = if r.chance(1, 2) { Some(*r.pick(PREFIXES)) } else { None };
        let join = |p: Option<&str>| match p {
            Some(p) => format!("{}/{}", p, base),
            None => base.to_string(),
        };
        let (src_key, dst_key) = (join(srcp), join(dstp));
        ctr += 1;
        let d = gen::digest_of(3000 + ctr, false);
        if let Body::Link(l) = &mut files[i - 1].body {
            l.products.insert(dst_key.clone(), d.clone());
        }
        if let Body::Link(l) = &mut files[i].body {
            // what arrives carries the same digest, another one, or one that is a prefix / an extension of it
            // (or empty): only the same digest may be consumed
            let arriving = match r.weighted(&[50, 14, 12, 12, 12]) {
                0 => d,
                1 => gen::digest_of(4000 + ctr, false),
                k => {
                    let mut x = d.clone();
                    let h = x.get("sha256").cloned().unwrap_or_default();
                    let nh = match k {
                        2 => h[..(h.len() / 4) * 2].to_string(),
                        3 => String::new(),
                        _ => format!("{h}00"),
                    };
                    x.insert("sha256".into(), nh);
                    labels.push("RELAY-DIGEST-PREFIX".to_string());
                    x
                }
            };
            l.materials.insert(src_key.clone(), arriving);
        }
        let mut m: Rule = vec!["MATCH".into(), r.pick(&["*", "?*", "*?"]).to_string()];
        if r.chance(1, 3) {
            m[1] = base.to_string();
        }
        if let Some(p) = srcp {
            m.push("IN".into());
            m.push(if r.chance(1, 6) { format!("{p}/") } else { p.to_string() });
        }
        m.push("WITH".into());
        m.push("PRODUCTS".into());
        if let Some(p) = dstp {
            m.push("IN".into());
            m.push(p.to_string());
        }
        m.push("FROM".into());
        m.push(names[i - 1].clone());
        let mut rules = vec![m, vec!["DISALLOW".into(), src_key.clone()], vec!["ALLOW".into(), "*".into()]];
        if r.chance(1, 3) {
            // a rule in front that must leave the artifact alone
            rules.insert(0, vec![r.pick(&["CREATE", "DELETE", "MODIFY"]).to_string(), "nothing-like-it".into()]);
        }
        steps[i].exp_mat = rules;
        labels.push("RELAY-ODD-NAME".to_string());
    }
    // in a tenth of the worlds some links spell some of their paths in another than the normal form
    if r.chance(1, 10) {
        for f in files.iter_mut() {
            if let Body::Link(l) = &mut f.body {
                for arts in [&mut l.materials, &mut l.products] {
                    let keys: Vec<String> = arts.keys().cloned().collect();
                    for k in keys {
                        if r.chance(1, 3) {
                            let nk = match r.below(4) {
                                0 => format!("./{k}"),
                                1 => k.replacen('/', "//", 1),
                                2 => format!("x/../{k}"),
                                _ => k.replacen('/', "/./", 1),
                            };
                            if nk != k && !arts.contains_key(&nk) {
                                if let Some(v) = arts.remove(&k) {
                                    arts.insert(nk, v);
                                }
                            }
                        }
                    }
                }
            }
        }
        labels.push("NON-NORMAL-PATHS".to_string());
    }
    // a directed near miss of a source prefix: the material lies in a SIBLING directory whose name begins
    // with the prefix ("src2/lib.c" for IN src), and the producing step has a product at the remainder
    // ("2/lib.c") with the same digest; the MATCH must leave it alone, the DISALLOW behind it must fire
    if n >= 2 && r.chance(1, 12) {
        let i = 1 + r.idx(n - 1);
        let p = *r.pick(PREFIXES);
        let tail = *r.pick(&["2", "-old", "_", ".bak", "x"]);
        let base = *r.pick(&["lib.c", "a", "foo"]);
        let (src_key, twin) = (format!("{p}{tail}/{base}"), format!("{tail}/{base}"));
        ctr += 1;
        let d = gen::digest_of(6000 + ctr, false);
        if let Body::Link(l) = &mut files[i - 1].body {
            l.products.insert(twin.clone(), d.clone());
            l.products.insert(format!("{}/{}", tail.trim_start_matches('/'), base), d.clone());
        }
        if let Body::Link(l) = &mut files[i].body {
            l.materials.insert(src_key.clone(), d);
        }
        steps[i].exp_mat = vec![
            vec!["MATCH".into(), "*".into(), "IN".into(), p.to_string(), "WITH".into(), "PRODUCTS".into(), "FROM".into(), names[i - 1].clone()],
            vec!["DISALLOW".into(), src_key],
            vec!["ALLOW".into(), "*".into()],
        ];
        labels.push("PREFIX-TWIN".to_string());
    }
    let now = gen::NOW_DEFAULT;
    let root = LevelSpec {
        layout: LayoutSpec { expires: refmodel::render_rfc3339(now + 86_400, None, ""), readme: String::new(), key_table: (1..=n).collect(), steps, inspect: vec![] },
        doc: DocSpec { signers: vec![0], ops: vec![], pretty: false },
        files,
        subdir: String::new(),
    };
    labels.push("RULES".into());
    // an inspection in a third of the worlds: the working directory holds copies of some of the last
    // step's products (some of them tampered with), the scripted command creates / changes / removes files
    let mut root = root;
    let mut work_files: Vec<(String, String)> = vec![];
    if r.chance(1, 3) {
        let last = root.layout.steps.last().map(|s| s.name.clone()).unwrap_or_default();
        let names_pool = ["foo", "bar", "baz", "a.c", "b.h", "extra", "report", "insp.link", "inspect-final.link"];
        for n in names_pool.iter().take(2 + r.idx(6)) {
            work_files.push((n.to_string(), format!("content-{}", r.below(4))));
        }
        // make some of them equal to the last step's products: rewrite that step's product digests to
        // the digests of these contents (flat names only)
        for f in root.files.iter_mut() {
            if let Body::Link(l) = &mut f.body {
                if l.name == last {
                    for (n, c) in work_files.iter() {
                        if r.chance(1, 2) {
                            let mut d = BTreeMap::new();
                            d.insert("sha256".to_string(), gen::sha256_hex(c.as_bytes()));
                            l.products.insert(n.clone(), d);
                        }
                    }
                }
            }
        }
        let mut ops = vec![];
        for _ in 0..r.below(3) {
            match r.below(3) {
                0 => ops.push(FsOp::Write { path: r.pick(&names_pool).to_string(), content: format!("content-{}", r.below(4)) }),
                1 => ops.push(FsOp::Append { path: r.pick(&names_pool).to_string(), content: "+".into() }),
                _ => ops.push(FsOp::Remove { path: r.pick(&names_pool).to_string() }),
            }
        }
        let mut inames = names.clone();
        inames.push("insp".to_string());
        root.layout.inspect.push(InspSpec {
            name: "insp".into(),
            exp_mat: rule_list(&mut r, &inames),
            exp_prod: rule_list(&mut r, &inames),
            actor: ActorScript { id: "root#insp".into(), ops, stdout: vec![], stderr: vec![], exit: ExitSpec::Code(0) },
        });
        labels.push("INSPECTION".into());
        // a second inspection in half of these worlds (own stream): it finds the first one's link file in the working
        // directory; either may refer to the other — the rules of all inspections are applied after all have run
        let mut sr = Rng::stream(seed, "second-inspection");
        if sr.chance(1, 2) {
            let mut both = names.clone();
            both.push("insp".to_string());
            both.push("audit".to_string());
            let mut ops2 = vec![];
            for _ in 0..sr.below(3) {
                match sr.below(3) {
                    0 => ops2.push(FsOp::Write { path: sr.pick(&names_pool).to_string(), content: format!("content-{}", sr.below(4)) }),
                    1 => ops2.push(FsOp::Append { path: sr.pick(&names_pool).to_string(), content: "+".into() }),
                    _ => ops2.push(FsOp::Remove { path: sr.pick(&names_pool).to_string() }),
                }
            }
            let mut em2 = rule_list(&mut sr, &both);
            let ep2 = rule_list(&mut sr, &both);
            if sr.chance(1, 3) {
                let front: Rule = match sr.below(3) {
                    0 => vec!["DISALLOW".into(), "insp.link".into()],
                    1 => vec!["REQUIRE".into(), "insp.link".into()],
                    _ => vec!["DISALLOW".into(), "*.link".into()],
                };
                em2.insert(0, front);
            }
            // a forward reference: the first inspection matches against the second one's link
            if sr.chance(1, 2) {
                if let Some(first) = root.layout.inspect.last_mut() {
                    let f = sr.pick(&names_pool).to_string();
                    let side = if sr.chance(1, 2) { "MATERIALS" } else { "PRODUCTS" };
                    let rule: Rule = vec!["MATCH".into(), f.clone(), "WITH".into(), side.into(), "FROM".into(), "audit".into()];
                    let list = if sr.chance(1, 2) { &mut first.exp_mat } else { &mut first.exp_prod };
                    list.insert(0, rule);
                    if sr.chance(1, 2) {
                        list.insert(1, vec!["DISALLOW".into(), f]);
                    }
                }
                labels.push("INSPECTION-FORWARD-REFERENCE".into());
            }
            root.layout.inspect.push(InspSpec {
                name: "audit".into(),
                exp_mat: em2,
                exp_prod: ep2,
                actor: ActorScript { id: "root#audit".into(), ops: ops2, stdout: vec![], stderr: vec![], exit: ExitSpec::Code(0) },
            });
            labels.push("TWO-INSPECTIONS".into());
        }
    }
    SupplyTrace { keys, root, caller: vec![(0, 0)], clock: vec![(now, 0)], hash_seeds: vec![r.next()], arrivals: vec![r.next()], file_faults: vec![], labels, work_files, caller_json_alias: vec![], step_name: None, rel_link_dir: false, read_faults: None, fixed_mtime: false, mtime_backwards: false, link_dir_style: 0, work_links: vec![], tz: None, same_thread: gen::same_thread_block(seed), via_symlink: None, mem_sigdup: vec![], in_place: false, read_eio: None, alt_dir_on_odd_reps: false, concurrent: 0 }
}

pub fn run_c03(_tier: Tier, seed: u64, index: u64, scratch: &Scratch, rec: &mut RunRecord) {
    let t = gen_rules_world(seed);
    exec_supply("C03", &t, scratch, rec, seed, index);
}

pub fn replay(_p: &str, _t: &RulesTrace, _sc: &Scratch, _r: &mut RunRecord) -> Vec<Finding> {
    vec![]
}
pub fn minimise(_p: &str, _c: &str, t: &RulesTrace, _sc: &Scratch) -> (RulesTrace, bool) {
    (t.clone(), false)
}
