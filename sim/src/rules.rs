//! stub
use crate::checks::{RunRecord, Tier};
use crate::exec::Scratch;
use crate::oracle::Finding;
use serde::{Deserialize, Serialize};

#[derive(Clone, Debug, Serialize, Deserialize, PartialEq)]
pub struct RulesTrace {}
pub fn run_c03(_t: Tier, _s: u64, _i: u64, _sc: &Scratch, _r: &mut RunRecord) {}
pub fn replay(_p: &str, _t: &RulesTrace, _sc: &Scratch, _r: &mut RunRecord) -> Vec<Finding> { vec![] }
pub fn minimise(_p: &str, _c: &str, t: &RulesTrace, _sc: &Scratch) -> (RulesTrace, bool) { (t.clone(), false) }
