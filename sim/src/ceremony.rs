//! stub
use crate::checks::{RunRecord, Tier};
use crate::exec::Scratch;
use crate::oracle::Finding;
use serde::{Deserialize, Serialize};

#[derive(Clone, Debug, Serialize, Deserialize, PartialEq)]
pub struct CeremonyTrace {}
pub fn run_c04(_t: Tier, _s: u64, _i: u64, _r: &mut RunRecord) {}
pub fn run_c09(_t: Tier, _s: u64, _i: u64, _r: &mut RunRecord) {}
pub fn run_c05(_t: Tier, _s: u64, _i: u64, _r: &mut RunRecord) {}
pub fn replay(_p: &str, _t: &CeremonyTrace, _r: &mut RunRecord) -> Vec<Finding> { vec![] }
pub fn minimise(_p: &str, _c: &str, t: &CeremonyTrace) -> (CeremonyTrace, bool) { (t.clone(), false) }
#[allow(dead_code)] fn _u(_: &Scratch) {}
