//! The signing-ceremony scenario (C04, C09, C05): one layout or link body, m signers of mixed key
//! types, signature "messages" over a faulty channel, a wire trip, verification against an
//! authorized set and a threshold under injected hash schedules and permutations.

use crate::checks::{site_of, RunRecord, Tier, Trace, Violation};
use crate::exec;
use crate::gen::{self, GenOpts};
use crate::keys::{self, KeyKind, KeySpec};
use crate::oracle::Finding;
use crate::prng::{Digest, Rng};
use crate::simio::SimWriter;
use crate::world::*;
use in_toto::crypto::{PrivateKey, PublicKey};
use in_toto::interchange::{DataInterchange, Json};
use in_toto::models::{Metablock, MetablockBuilder, MetadataWrapper};
use serde::{Deserialize, Serialize};
use serde_json::{json, Value};
use std::collections::{BTreeMap, BTreeSet};

#[derive(Clone, Debug, Serialize, Deserialize, PartialEq)]
pub enum BodySpec {
    Link(LinkSpec),
    Layout(LayoutSpec),
}

#[derive(Clone, Debug, Serialize, Deserialize, PartialEq)]
pub enum Wire {
    Compact,
    Pretty,
    /// `Json::to_writer` through a simulated writer (chunking, EINTR)
    Writer { chunked: bool, eintr_pct: u64 },
}

#[derive(Clone, Debug, Serialize, Deserialize, PartialEq)]
pub enum Mode {
    /// threshold counting, both directions
    C04,
    /// round trip must verify; substitutions must not
    C09,
    /// a post-signing edit: parsed value unequal => no signature verifies
    C05,
}

#[derive(Clone, Debug, Serialize, Deserialize, PartialEq)]
pub struct CeremonyTrace {
    pub mode: Mode,
    pub keys: Vec<KeySpec>,
    pub body: BodySpec,
    pub signers: Vec<usize>,
    /// signers (indices into `signers`) that sign a second time (randomised schemes give a second, different valid signature)
    pub resign: Vec<usize>,
    pub builder_path: bool,
    pub wire: Wire,
    pub ops: Vec<DocOp>,
    pub authorized: Vec<usize>,
    pub threshold: u32,
    pub hash_seeds: Vec<u64>,
    pub perm_seeds: Vec<u64>,
    pub io_seed: u64,
    pub labels: Vec<String>,
    /// (position in `authorized`, declared scheme): that key is presented as the same key material
    /// declared with another signature scheme
    #[serde(default)]
    pub auth_scheme: Vec<(usize, String)>,
    /// (position in `authorized`, key index): that key object is deserialized from JSON whose "keyid"
    /// member carries the other key's id
    #[serde(default)]
    pub auth_json_alias: Vec<(usize, usize)>,
    /// the signature objects exactly as they were made when the violation was found (randomised
    /// schemes: ring's entropy is not a function of the seed); when present nothing is signed again
    #[serde(default)]
    pub frozen_sigs: Option<Value>,
    /// the metadata value is built through the library's typed API (structs, enums, builders), not
    /// through its parser
    #[serde(default)]
    pub typed_api: bool,
    /// the block is built by `MetablockBuilder::from_raw_metadata` from a text that is not in the
    /// library's normal form (bit 0 pretty-printed, bit 1 an unmodelled member, bit 2 a `Z` expiry
    /// spelled `+00:00`, bit 3 null members left out)
    #[serde(default)]
    pub raw_path: Option<u8>,
    /// signature entries (indices into the parsed block's list) repeated in memory after parsing: the
    /// block object that is verified did not come out of the parser as it is
    #[serde(default)]
    pub mem_sigdup: Vec<usize>,
    /// the verifications run on the worker's long-lived verifier thread (thread-local state of the library
    /// carries over from one call, and from one ceremony, to the next) instead of a fresh thread each
    #[serde(default)]
    pub same_thread: bool,
    /// two different strings whose canonical encodings are compared directly (C05: no two distinct values
    /// may share one encoding) — the pair comes from the family of near-collision spellings of a leaf
    #[serde(default)]
    pub canon_pair: Option<(String, String)>,
    /// (depth, variant): two JSON values nested that deep which differ in one place — behind, or at the
    /// bottom of, the nesting — are canonicalized and compared (built on the fly: a replay file cannot hold
    /// values nested deeper than its own parser goes)
    #[serde(default)]
    pub canon_nest: Option<(usize, u8)>,
    /// a layout built through the typed API whose key table is re-keyed by hand (variant 0: one key listed
    /// under a foreign id instead of its own; 1: listed under both): another value than the layout that was
    /// signed, so the signatures made over the one must not verify over the other
    #[serde(default)]
    pub typed_twin: Option<u8>,
    /// a signing attempt the library (rightly) refuses — an RSA key loaded under a scheme it cannot sign with —
    /// is made on the same thread right before the block is signed (bit 1) / before each verification (bit 0):
    /// an error path of an unrelated call must leave nothing behind that the next call can see
    #[serde(default)]
    pub refused_sign: u8,
}

/// The refused call of `refused_sign`: a call the library (rightly) answers with an error, made on the thread
/// that signs / verifies next. Variants: signing with a key loaded under a scheme it cannot sign with (through
/// `Metablock::new` / through the builder), canonicalizing a document that holds a non-integer number deep
/// inside, decoding a torn document. Returns whether the library did refuse.
pub fn refused_signing_attempt(variant: u8) -> bool {
    let text = r#"{"_type":"link","name":"unrelated","materials":{},"products":{"refused/attempt":{"sha256":"00"}},"byproducts":{},"command":[],"environment":{}}"#;
    match variant % 4 {
        2 => {
            let v = json!({"_type": "link", "name": "unrelated", "products": {"a/b": {"sha256": "00"}}, "zz": [1, {"k": ["x", 1.5]}]});
            Json::canonicalize(&v).is_err()
        }
        3 => {
            let torn = &text.as_bytes()[..text.len() - 17];
            let a = MetadataWrapper::try_from_bytes(torn).is_err();
            let b = Json::from_slice::<Metablock>(torn).is_err();
            a && b
        }
        v => {
            let misfit = match PrivateKey::from_pkcs8(keys::rsa2048_pk8(), in_toto::crypto::SignatureScheme::EcdsaP256Sha256) {
                Ok(k) => k,
                Err(_) => return false,
            };
            let meta = match MetadataWrapper::try_from_bytes(text.as_bytes()) {
                Ok(m) => m,
                Err(_) => return false,
            };
            if v == 0 {
                Metablock::new(meta, &[&misfit]).is_err()
            } else {
                MetablockBuilder::from_metadata(meta.into_trait()).sign(&[&misfit]).is_err()
            }
        }
    }
}

/// The same key material declared with another scheme (None if the library refuses to build it).
pub fn redeclared(k: &keys::Key, scheme: &str) -> Option<PublicKey> {
    let spki = k.public.as_spki().ok()?;
    let s = match scheme {
        "ed25519" => in_toto::crypto::SignatureScheme::Ed25519,
        "ecdsa-sha2-nistp256" => in_toto::crypto::SignatureScheme::EcdsaP256Sha256,
        "rsassa-pss-sha256" => in_toto::crypto::SignatureScheme::RsaSsaPssSha256,
        "rsassa-pss-sha512" => in_toto::crypto::SignatureScheme::RsaSsaPssSha512,
        o => in_toto::crypto::SignatureScheme::Unknown(o.to_string()),
    };
    // the constructor is a function of (key, scheme), so that a replay takes the same route
    match crate::prng::fnv(&format!("{}|{}", k.id, scheme)) % 3 {
        1 => {
            let b64 = data_encoding::BASE64.encode(&spki);
            let mut pem = String::from("-----BEGIN PUBLIC KEY-----\n");
            for chunk in b64.as_bytes().chunks(64) {
                pem.push_str(std::str::from_utf8(chunk).unwrap_or(""));
                pem.push('\n');
            }
            pem.push_str("-----END PUBLIC KEY-----\n");
            PublicKey::from_pem_spki(&pem, s).ok()
        }
        2 if matches!(k.public.typ(), in_toto::crypto::KeyType::Ecdsa) => PublicKey::from_ecdsa_with_keyid_hash_algorithm(k.public.as_bytes().to_vec(), s, None).ok(),
        _ => PublicKey::from_spki(&spki, s).ok(),
    }
}

pub fn key_id_string(k: &PublicKey) -> String {
    serde_json::to_value(k.key_id()).ok().and_then(|v| v.as_str().map(|s| s.to_string())).unwrap_or_default()
}

pub fn body_value(b: &BodySpec, keys: &[KeySpec]) -> Value {
    match b {
        BodySpec::Link(l) => link_value(l),
        BodySpec::Layout(l) => layout_value(l, keys),
    }
}

/// Sign through one of the two construction paths. Returns the block.
fn raw_text(signed: &Value, variant: u8) -> String {
    let mut v = signed.clone();
    if let Some(o) = v.as_object_mut() {
        if variant & 8 != 0 {
            let nulls: Vec<String> = o.iter().filter(|(_, x)| x.is_null()).map(|(k, _)| k.clone()).collect();
            for k in nulls {
                o.remove(&k);
            }
        }
        if variant & 4 != 0 {
            if let Some(Value::String(e)) = o.get_mut("expires") {
                if e.ends_with('Z') {
                    *e = format!("{}+00:00", &e[..e.len() - 1]);
                }
            }
        }
        if variant & 2 != 0 {
            o.insert("x-note".into(), json!({"unmodelled": [1, "two"]}));
        }
    }
    if variant & 1 != 0 {
        serde_json::to_string_pretty(&v).unwrap_or_default()
    } else {
        serde_json::to_string(&v).unwrap_or_default()
    }
}

fn construct(signed: &Value, signers: &[usize], keyspecs: &[KeySpec], builder_path: bool, typed: Option<MetadataWrapper>, raw: Option<u8>) -> Result<Metablock, String> {
    if let (Some(variant), None) = (raw, &typed) {
        let ks: Vec<_> = signers.iter().map(|k| keys::key(keyspecs[*k])).collect();
        let privs: Vec<&PrivateKey> = ks.iter().map(|k| &k.private).collect();
        let b = MetablockBuilder::from_raw_metadata(raw_text(signed, variant).as_bytes()).map_err(|e| format!("{e}"))?;
        return Ok(b.sign(&privs).map_err(|e| format!("{e}"))?.build());
    }
    let text = serde_json::to_string(signed).map_err(|e| e.to_string())?;
    let meta: MetadataWrapper = match typed {
        Some(m) => m,
        None => MetadataWrapper::try_from_bytes(text.as_bytes()).map_err(|e| format!("{e}"))?,
    };
    let ks: Vec<_> = signers.iter().map(|k| keys::key(keyspecs[*k])).collect();
    let privs: Vec<&PrivateKey> = ks.iter().map(|k| &k.private).collect();
    if builder_path {
        let b = MetablockBuilder::from_metadata(meta.into_trait());
        Ok(b.sign(&privs).map_err(|e| format!("{e}"))?.build())
    } else {
        Metablock::new(meta, &privs).map_err(|e| format!("{e}"))
    }
}

pub struct CeremonyOutcome {
    /// the edited signed part is another JSON value than the original, yet both canonicalize to the same bytes
    pub canon_collision: Option<String>,
    /// key ids (lower case) whose genuine signature is listed under the id re-spelled in upper-case hex
    pub recased: Vec<String>,
    pub unsignable: Option<String>,
    /// text after the wire and the channel faults
    pub text: String,
    /// (label id, valid) per signature in the final list
    pub sig_truth: Vec<(String, bool)>,
    pub parsed: bool,
    pub parse_err: String,
    /// per repetition: Ok(metadata equals block metadata) / Err(class)
    pub results: Vec<Result<bool, String>>,
    pub panic: Option<String>,
    pub typed_equal_to_original: Option<bool>,
    pub fired: Vec<String>,
    pub wire_stats: (usize, usize),
}

pub struct Prepared {
    pub mb: Option<Metablock>,
    pub state3: Value,
    pub unsignable: Option<String>,
    pub fired: Vec<String>,
}

/// Sign once (the expensive part); independent of `ops`, `wire`, `authorized`, `threshold`.
pub fn prepare(t: &CeremonyTrace) -> Prepared {
    let signed = body_value(&t.body, &t.keys);
    let mut fired = vec![];
    if let Some(fz) = &t.frozen_sigs {
        // replay of a recorded run: the block's metadata from the body, the signatures as recorded
        let text = serde_json::to_string(&signed).unwrap_or_default();
        return match MetadataWrapper::try_from_bytes(text.as_bytes()) {
            Ok(meta) => match Metablock::new(meta, &[]) {
                Ok(mb) => {
                    let mut state3 = serde_json::to_value(&mb).unwrap_or(Value::Null);
                    state3["signatures"] = fz.clone();
                    Prepared { mb: Some(mb), state3, unsignable: None, fired }
                }
                Err(e) => Prepared { mb: None, state3: Value::Null, unsignable: Some(format!("{e}")), fired },
            },
            Err(e) => Prepared { mb: None, state3: Value::Null, unsignable: Some(format!("{e}")), fired },
        };
    }
    let typed = if t.typed_api { crate::typed::body(&t.body, &t.keys) } else { None };
    if t.typed_api && typed.is_some() {
        fired.push("TYPED-API".into());
    } else if t.raw_path.is_some() {
        fired.push("RAW-METADATA-PATH".into());
    }
    if t.refused_sign & 2 != 0 && refused_signing_attempt(t.refused_sign >> 2) {
        fired.push("REFUSED-CALL-BEFORE-SIGNING".into());
    }
    let mb = match construct(&signed, &t.signers, &t.keys, t.builder_path, typed.clone(), t.raw_path) {
        Ok(m) => m,
        Err(e) => return Prepared { mb: None, state3: Value::Null, unsignable: Some(e), fired },
    };
    // the builder sorts by key id; keep the document's own order for everything below
    let mut sigs: Vec<Value> = serde_json::to_value(&mb.signatures).unwrap().as_array().cloned().unwrap_or_default();
    for r in &t.resign {
        if let Some(k) = t.signers.get(*r) {
            if let Ok(m2) = construct(&signed, &[*k], &t.keys, false, typed.clone(), t.raw_path) {
                if let Some(s) = serde_json::to_value(&m2.signatures).unwrap().as_array().and_then(|a| a.first().cloned()) {
                    sigs.push(s);
                    fired.push("RESIGN".into());
                }
            }
        }
    }
    // wire form of the block as the library writes it
    let block_value = match serde_json::to_value(&mb) {
        Ok(v) => v,
        Err(e) => return Prepared { mb: None, state3: Value::Null, unsignable: Some(e.to_string()), fired },
    };
    let mut state3 = block_value;
    state3["signatures"] = Value::Array(sigs);
    Prepared { mb: Some(mb), state3, unsignable: None, fired }
}

pub fn run_ceremony(t: &CeremonyTrace) -> CeremonyOutcome {
    finish(t, &prepare(t))
}

pub fn finish(t: &CeremonyTrace, p: &Prepared) -> CeremonyOutcome {
    let mut out = CeremonyOutcome {
        canon_collision: None,
        recased: vec![],
        unsignable: p.unsignable.clone(),
        text: String::new(),
        sig_truth: vec![],
        parsed: false,
        parse_err: String::new(),
        results: vec![],
        panic: None,
        typed_equal_to_original: None,
        fired: p.fired.clone(),
        wire_stats: (0, 0),
    };
    if let (Some(variant), BodySpec::Layout(ls)) = (t.typed_twin, &t.body) {
        // values built in memory, never through the parser
        if let Some(a) = crate::typed::layout(ls, &t.keys) {
            let mut b = a.clone();
            if let Some((own_id, key)) = a.keys.iter().min_by_key(|(k, _)| serde_json::to_string(k).unwrap_or_default()).map(|(k, v)| (k.clone(), v.clone())) {
                let foreign: in_toto::crypto::KeyId = "f0".repeat(32).parse().expect("64 characters");
                if variant % 2 == 0 {
                    b.keys.remove(&own_id);
                }
                b.keys.insert(foreign, key);
                let signers: Vec<_> = t.signers.iter().map(|k| keys::key(t.keys[*k])).collect();
                let privs: Vec<&PrivateKey> = signers.iter().map(|k| &k.private).collect();
                if let Ok(signed_a) = Metablock::new(MetadataWrapper::Layout(a.clone()), &privs) {
                    let twin = Metablock { signatures: signed_a.signatures.clone(), metadata: MetadataWrapper::Layout(b.clone()) };
                    out.parsed = true;
                    out.typed_equal_to_original = Some(a == b);
                    for sk in &signers {
                        out.results.push(match twin.verify(1, [&sk.public]) {
                            Ok(_) => Ok(true),
                            Err(e) => Err(exec::err_class(&e)),
                        });
                    }
                }
            }
        }
        return out;
    }
    let mb = match &p.mb {
        Some(m) => m,
        None => return out,
    };
    let state3 = &p.state3;
    let orig_pairs: BTreeSet<(String, String)> = state3["signatures"]
        .as_array()
        .unwrap()
        .iter()
        .map(|s| (s["keyid"].as_str().unwrap_or("").to_string(), s["sig"].as_str().unwrap_or("").to_string()))
        .collect();
    let mut cur = state3.clone();
    for op in &t.ops {
        if apply_op(&mut cur, op, &t.keys) {
            out.fired.push(op_name(op).to_string());
        }
    }
    if t.mode == Mode::C05 && cur["signed"] != state3["signed"] {
        if let (Ok(a), Ok(b)) = (Json::canonicalize(&cur["signed"]), Json::canonicalize(&state3["signed"])) {
            if a == b {
                out.canon_collision = Some(String::from_utf8_lossy(&a).chars().take(200).collect());
            }
        }
    }
    if let Some((a, b)) = &t.canon_pair {
        if a != b {
            if let (Ok(ca), Ok(cb)) = (Json::canonicalize(&json!(a)), Json::canonicalize(&json!(b))) {
                if ca == cb {
                    out.canon_collision = Some(format!("{:?} and {:?} both canonicalize to {}", a, b, String::from_utf8_lossy(&ca).chars().take(120).collect::<String>()));
                }
            }
        }
    }
    if let Some((depth, variant)) = t.canon_nest {
        let (a, b) = nested_pair(depth, variant);
        if let (Ok(ca), Ok(cb)) = (Json::canonicalize(&a), Json::canonicalize(&b)) {
            if ca == cb {
                out.canon_collision = Some(format!("two values nested {depth} deep that differ (variant {variant}) share the {}-byte encoding {}…", ca.len(), String::from_utf8_lossy(&ca).chars().take(60).collect::<String>()));
            }
        }
        // (values this deep are taken apart iteratively: dropping them recursively could exhaust the stack)
        for v in [a, b] {
            let mut stack = vec![v];
            while let Some(x) = stack.pop() {
                match x {
                    Value::Array(xs) => stack.extend(xs),
                    Value::Object(m) => stack.extend(m.into_iter().map(|(_, y)| y)),
                    _ => {}
                }
            }
        }
    }
    let text = match &t.wire {
        Wire::Compact => serde_json::to_string(&cur).unwrap(),
        Wire::Pretty => serde_json::to_string_pretty(&cur).unwrap(),
        Wire::Writer { chunked, eintr_pct } => {
            let mut w = SimWriter::new(t.io_seed, *chunked, *eintr_pct, None);
            match Json::to_writer(&mut w, &cur) {
                Ok(()) => {
                    out.wire_stats = (w.stats.short, w.stats.eintr);
                    String::from_utf8_lossy(&w.out).to_string()
                }
                Err(e) => {
                    out.unsignable = Some(format!("to_writer: {e}"));
                    return out;
                }
            }
        }
    };
    out.text = text.clone();
    let content_same_value = cur["signed"] == state3["signed"];
    // the block comes back from the wire: from a string, or — when it went out through a stream — through
    // the library's streaming reader over a stream that delivers it in pieces
    let read_back: Result<Metablock, String> = match &t.wire {
        Wire::Writer { chunked, eintr_pct } => {
            let rd = crate::simio::SimReader::new(text.as_bytes(), t.io_seed ^ 0x5eed, *chunked, *eintr_pct, None);
            Json::from_reader::<_, Metablock>(rd).map_err(|e| e.to_string())
        }
        _ => serde_json::from_str(&text).map_err(|e| e.to_string()),
    };
    let parsed: Metablock = match read_back {
        Ok(m) => m,
        Err(e) => {
            out.parse_err = e;
            return out;
        }
    };
    out.parsed = true;
    let typed_equal = parsed.metadata == mb.metadata;
    out.typed_equal_to_original = Some(typed_equal);
    let content_same = content_same_value || typed_equal;
    if let Some(a) = cur["signatures"].as_array() {
        for s in a {
            let id = s["keyid"].as_str().unwrap_or("").to_string();
            let sv = s["sig"].as_str().unwrap_or("").to_string();
            let exact = content_same && orig_pairs.contains(&(id.clone(), sv.clone()));
            // (the genuine signature under its key id in upper-case hex: whether key ids are compared with
            // regard to letter case is left open — it counts for that key in the "only if" direction, the
            // weakest reading, and not in the converse)
            if !exact && content_same && id.chars().any(|c| c.is_ascii_uppercase()) && orig_pairs.contains(&(id.to_ascii_lowercase(), sv)) {
                out.recased.push(id.to_ascii_lowercase());
            }
            out.sig_truth.push((id.clone(), exact));
        }
    }
    let mut auth: Vec<PublicKey> = t.authorized.iter().map(|k| keys::key(t.keys[*k]).public.clone()).collect();
    for (pos, scheme) in &t.auth_scheme {
        if let Some(k) = t.authorized.get(*pos) {
            if let Some(pk) = redeclared(&keys::key(t.keys[*k]), scheme) {
                auth[*pos] = pk;
            }
        }
    }
    for (pos, other) in &t.auth_json_alias {
        if let (Some(k), Some(o)) = (t.authorized.get(*pos), t.keys.get(*other)) {
            let mut j = keys::key(t.keys[*k]).public_json();
            j["keyid"] = json!(keys::key(*o).id.clone());
            if let Ok(pk) = serde_json::from_value::<PublicKey>(j) {
                auth[*pos] = pk;
            }
        }
    }
    let reps = t.hash_seeds.len().max(1);
    for rep in 0..reps {
        let mut p = parsed.clone();
        let mut a = auth.clone();
        for i in &t.mem_sigdup {
            if let Some(sg) = p.signatures.get(*i).cloned() {
                p.signatures.push(sg);
            }
        }
        if let Some(ps) = t.perm_seeds.get(rep) {
            if *ps != 0 {
                let mut r = Rng::new(*ps);
                r.shuffle(&mut p.signatures);
                r.shuffle(&mut a);
            }
        }
        let threshold = t.threshold;
        let expect = parsed.metadata.clone();
        let hs = t.hash_seeds.get(rep).copied().unwrap_or(1);
        let refused = t.refused_sign & 1 != 0;
        let refused_variant = (t.refused_sign >> 2).wrapping_add(rep as u8);
        let call = move || {
            if refused {
                refused_signing_attempt(refused_variant);
            }
            match p.verify(threshold, a.iter()) {
                Ok(m) => Ok(m == expect),
                Err(e) => Err(exec::err_class(&e)),
            }
        };
        if refused && rep == 0 {
            out.fired.push("REFUSED-CALL-BEFORE-VERIFY".into());
        }
        let r = if t.same_thread { exec::in_same_thread(hs, call) } else { exec::in_fresh_thread(hs, call) };
        match r {
            Ok(x) => out.results.push(x),
            Err(pn) => {
                out.panic = Some(pn);
                break;
            }
        }
    }
    out
}

pub fn judge_ceremony(t: &CeremonyTrace, o: &CeremonyOutcome) -> Vec<Finding> {
    let mut f = vec![];
    if let Some(p) = &o.panic {
        f.push(Finding { prop: "C14".into(), clause: "panic-in-block-verification".into(), detail: p.clone() });
    }
    if o.unsignable.is_none() && !o.parsed && t.mode == Mode::C09 && t.ops.is_empty() && t.labels.iter().any(|l| l == "POSITIVE") {
        // what the library wrote itself cannot be read back
        f.push(Finding {
            prop: "C09".into(),
            clause: "own-output-unreadable".into(),
            detail: format!("the block the library signed and wrote ({:?}) is rejected by its own parser: {}", t.wire, o.parse_err),
        });
    }
    if let Some(c) = &o.canon_collision {
        f.push(Finding {
            prop: "C05".into(),
            clause: "distinct-values-same-canonical-bytes".into(),
            detail: if t.canon_nest.is_some() { format!("no two distinct JSON values may share an encoding: {c}") } else if t.canon_pair.is_some() { format!("two different strings share one canonical encoding: {c}") } else { format!("edit {:?}: the edited signed part is another JSON value than the original, both canonicalize to {c}", t.ops) },
        });
    }
    if o.unsignable.is_some() || !o.parsed {
        return f;
    }
    // identities of the presented keys: a key declared with another scheme is another identity
    // (nobody signed with it); a JSON alias of a key is the same identity as the key itself
    let mut auth_ids: BTreeSet<String> = BTreeSet::new();
    for (pos, k) in t.authorized.iter().enumerate() {
        match t.auth_scheme.iter().find(|(p, _)| *p == pos) {
            Some((_, scheme)) => {
                if let Some(pk) = redeclared(&keys::key(t.keys[*k]), scheme) {
                    auth_ids.insert(key_id_string(&pk));
                }
            }
            None => {
                auth_ids.insert(keys::key(t.keys[*k]).id.clone());
            }
        }
    }
    let counting: BTreeSet<&String> = o.sig_truth.iter().filter(|(id, v)| *v && auth_ids.contains(id)).map(|(id, _)| id).collect();
    // (a key id re-spelled in another letter case is the same key listed again for this purpose)
    let mut per_label: BTreeMap<String, usize> = BTreeMap::new();
    for (id, _) in &o.sig_truth {
        *per_label.entry(id.to_ascii_lowercase()).or_default() += 1;
    }
    let once = per_label.values().all(|n| *n <= 1) && t.mem_sigdup.is_empty();
    let enough = t.threshold >= 1 && counting.len() as u64 >= t.threshold as u64;
    let mut counting_lenient: BTreeSet<&String> = counting.clone();
    counting_lenient.extend(o.recased.iter().filter(|id| auth_ids.contains(*id)));
    let enough_lenient = t.threshold >= 1 && counting_lenient.len() as u64 >= t.threshold as u64;
    let any_ok = o.results.iter().any(|r| r.is_ok());
    let all_ok = o.results.iter().all(|r| r.is_ok());
    match t.mode {
        Mode::C04 => {
            if any_ok && !enough_lenient {
                f.push(Finding {
                    prop: "C04".into(),
                    clause: "threshold-not-met-but-accepted".into(),
                    detail: format!("threshold {} accepted with {} distinct authorized keys having a valid signature (signatures: {:?})", t.threshold, counting.len(), o.sig_truth.iter().map(|(i, v)| (&i[..8.min(i.len())], *v)).collect::<Vec<_>>()),
                });
            }
            if enough && once && !all_ok {
                f.push(Finding {
                    prop: "C04".into(),
                    clause: "threshold-met-but-rejected".into(),
                    detail: format!("threshold {} with {} distinct authorized valid signers, each key signing once: {:?}", t.threshold, counting.len(), o.results),
                });
            }
            if o.results.iter().any(|r| matches!(r, Ok(false))) {
                f.push(Finding { prop: "C04".into(), clause: "returned-content-differs".into(), detail: "verify returned metadata that is not the block's metadata".into() });
            }
        }
        Mode::C09 => {
            let positive = t.labels.iter().any(|l| l == "POSITIVE");
            if positive && !all_ok {
                f.push(Finding {
                    prop: "C09".into(),
                    clause: "own-signature-rejected-after-wire".into(),
                    detail: format!("threshold {} = number of signers, results {:?}", t.threshold, o.results),
                });
            }
            if !positive && any_ok && !enough_lenient {
                f.push(Finding {
                    prop: "C09".into(),
                    clause: "signature-verifies-under-substitution".into(),
                    detail: format!("labels {:?}: accepted although only {} of {} required keys have a valid signature", t.labels, counting.len(), t.threshold),
                });
            }
        }
        Mode::C05 => {
            // parsed value unequal to the signed one => no signer's signature may verify
            if o.typed_equal_to_original == Some(false) && any_ok {
                f.push(Finding {
                    prop: "C05".into(),
                    clause: "edited-content-still-verifies".into(),
                    detail: if let Some(v) = t.typed_twin {
                        format!("a layout built through the typed API and its twin whose key table lists one key under a foreign id (variant {v}) are unequal values, yet the signatures made over the one verify over the other: verify(1, signer) = {:?}", o.results)
                    } else {
                        format!("edit {:?}: parsed metadata differs from what was signed, yet verify(1, signer) = {:?}", t.ops, o.results)
                    },
                });
            }
        }
    }
    f
}

fn fold(t: &CeremonyTrace, o: &CeremonyOutcome, findings: Vec<Finding>, rec: &mut RunRecord, seed: u64, index: u64, prop: &str) -> Vec<Finding> {
    rec.evaluations += 1;
    if o.unsignable.is_some() {
        rec.vacuous += 1;
        rec.vacuous_why.push(format!("unsignable: {}", o.unsignable.clone().unwrap().chars().take(100).collect::<String>()));
    }
    let mut d = Digest::new();
    d.update(&rec.log_digest.to_le_bytes());
    // (on the long-lived thread the order of maps, and with it which error comes first, depends on history)
    if t.same_thread {
        d.str(&format!("{:?}", o.results.iter().map(|r| r.clone().map_err(|_| ())).collect::<Vec<_>>()));
    } else {
        d.str(&format!("{:?}", o.results));
    }
    d.str(&format!("{:?}", o.sig_truth.iter().map(|x| x.1).collect::<Vec<_>>()));
    d.str(if o.parsed { "parsed" } else { "unparsed" });
    rec.log_digest = d.finish();
    let mut sh = Digest::new();
    sh.str(&format!(
        "{:?}|{:?}|t{}|a{}|s{}|{:?}|{:?}|{:?}|{}",
        t.mode,
        t.labels,
        t.threshold.min(9),
        t.authorized.len(),
        o.sig_truth.len(),
        o.sig_truth.iter().map(|x| x.1).collect::<Vec<_>>(),
        o.results.iter().map(|r| r.is_ok()).collect::<BTreeSet<_>>(),
        o.typed_equal_to_original,
        t.keys.iter().map(|k| format!("{:?}", k.kind)).collect::<BTreeSet<_>>().len()
    ));
    if t.mode == Mode::C05 {
        sh.str(&format!("{:?}", t.ops));
    }
    {
        // construction path, wire form, key kinds and the character classes present in the body
        let mut kinds: Vec<String> = t.signers.iter().filter_map(|k| t.keys.get(*k)).map(|k| format!("{:?}", k.kind)).collect();
        kinds.sort();
        let text = o.text.as_str();
        let classes = [
            text.contains("\\n"),
            text.contains("\\\\"),
            text.contains("\\\""),
            text.contains("\\u00"),
            text.chars().any(|c| (c as u32) > 0xffff),
            text.chars().any(|c| (c as u32) > 0x7f && (c as u32) <= 0xffff),
            text.contains("\\t"),
            text.contains('\u{2028}'),
        ];
        sh.str(&format!(
            "{}|{}|{:?}|{}|{:?}|{:?}|{:?}|len{}",
            matches!(t.body, BodySpec::Layout(_)),
            t.typed_api,
            t.raw_path,
            t.builder_path,
            std::mem::discriminant(&t.wire),
            kinds,
            classes,
            (text.len() / 256).min(40)
        ));
    }
    rec.shapes.push((sh.finish(), !t.labels.is_empty() || !o.fired.is_empty()));
    for (hs, ps) in t.hash_seeds.iter().zip(t.perm_seeds.iter().chain(std::iter::repeat(&0))) {
        rec.schedules.push(hs ^ ps.rotate_left(17));
    }
    for l in t.labels.iter().chain(o.fired.iter()) {
        rec.fired.push(l.clone());
    }
    if o.wire_stats.0 > 0 {
        rec.fired.push("CHUNK".into());
    }
    if o.wire_stats.1 > 0 {
        rec.fired.push("EINTR".into());
    }
    for r in &o.results {
        rec.verdicts[if r.is_ok() { 0 } else { 1 }] += 1;
    }
    if o.panic.is_some() {
        rec.verdicts[2] += 1;
    }
    if t.keys.iter().any(|k| !k.kind.is_ed()) {
        rec.probe("non-ed25519 key in ceremony");
    }
    if !o.parsed && o.unsignable.is_none() {
        rec.probe("document unparseable after faults");
    }
    if o.typed_equal_to_original == Some(true) && !t.ops.is_empty() {
        rec.probe("edit parses to an equal value");
    }
    if rec.sample.is_none() {
        rec.sample = Some(json!({
            "seed": seed, "mode": format!("{:?}", t.mode), "labels": t.labels, "signers": t.signers.len(), "authorized": t.authorized.len(),
            "threshold": t.threshold, "ops": t.ops, "signature_truth": o.sig_truth.iter().map(|x| x.1).collect::<Vec<_>>(),
            "results": o.results.iter().map(|r| format!("{:?}", r)).collect::<Vec<_>>(),
            "key_kinds": t.keys.iter().map(|k| format!("{:?}", k.kind)).collect::<Vec<_>>(),
        }));
    }
    let mut own = vec![];
    for x in findings {
        if x.prop == prop {
            if own.is_empty() {
                let mut labels = t.labels.clone();
                if t.mode == Mode::C05 {
                    labels = vec![];
                }
                rec.own.push(Violation { seed, index, site: site_of(&x, &labels), finding: x.clone(), trace: Trace::Ceremony(t.clone()) });
            }
            own.push(x);
        } else {
            rec.cross.push(x);
        }
    }
    own
}

fn exec_prepared(t: &CeremonyTrace, p: &Prepared, rec: &mut RunRecord, seed: u64, index: u64, prop: &str, history: Option<&CeremonyTrace>) -> Vec<Finding> {
    let o = finish(t, p);
    let f = judge_ceremony(t, &o);
    let before = rec.own.len();
    let r = fold(t, &o, f, rec, seed, index, prop);
    if rec.own.len() > before && t.frozen_sigs.is_none() && t.keys.iter().any(|k| !k.kind.is_ed()) {
        for v in rec.own.iter_mut().skip(before) {
            if let Trace::Ceremony(c) = &mut v.trace {
                c.frozen_sigs = Some(p.state3["signatures"].clone());
            }
        }
    }
    if let Some(h) = history {
        for v in rec.own.iter_mut().skip(before) {
            let mut hh = h.clone();
            if let Trace::Ceremony(c) = &v.trace {
                hh.frozen_sigs = c.frozen_sigs.clone();
            }
            v.trace = Trace::Seq(vec![Trace::Ceremony(hh), v.trace.clone()]);
        }
    }
    r
}

fn exec_and_fold(t: &CeremonyTrace, rec: &mut RunRecord, seed: u64, index: u64, prop: &str) -> Vec<Finding> {
    crate::crash::write_current_trace(&Trace::Ceremony(t.clone()));
    let p = prepare(t);
    exec_prepared(t, &p, rec, seed, index, prop, None)
}

// ---------------------------------------------------------------------------------------------
// generators
// ---------------------------------------------------------------------------------------------
pub fn gen_body(r: &mut Rng, seed: u64, keys: &mut Vec<KeySpec>) -> BodySpec {
    if r.chance(1, 2) {
        let mut env = None;
        if r.chance(1, 3) {
            env = Some(BTreeMap::from([(gen::text(r), gen::text(r)), ("k".to_string(), gen::text(r))]));
        }
        let mut arts = Artifacts::new();
        for i in 0..r.below(4) {
            arts.insert(if r.chance(1, 4) { gen::text(r) } else { format!("p{i}/f") }, gen::digest_of(r.below(50), r.chance(1, 4)));
        }
        let mut other = BTreeMap::new();
        if r.chance(1, 4) {
            other.insert(format!("x-{}", gen::simple_name(r)), gen::text(r));
        }
        BodySpec::Link(LinkSpec {
            name: if r.chance(1, 3) { gen::text(r) } else { gen::simple_name(r) },
            materials: arts.clone(),
            products: if r.chance(1, 2) { arts } else { Artifacts::new() },
            stdout: if r.chance(1, 8) { None } else { Some(gen::text(r)) },
            stderr: if r.chance(1, 8) { None } else { Some(gen::text(r)) },
            retval: if r.chance(1, 8) { None } else { Some(*r.pick(&[0i64, 1, -1, 255, i32::MAX as i64, i32::MIN as i64])) },
            other,
            command: (0..r.below(3)).map(|_| gen::text(r)).collect(),
            env,
        })
    } else {
        let opts = GenOpts { ed_only_pct: 60, delegation_pct: 0, max_steps: 3, ..GenOpts::default() };
        let (t, _) = gen::baseline(seed ^ 0xc0ffee, &opts);
        let base = keys.len();
        keys.extend(t.keys.iter().cloned());
        let mut l = t.root.layout.clone();
        l.key_table = l.key_table.iter().map(|k| k + base).collect();
        for s in l.steps.iter_mut() {
            s.pubkeys = s.pubkeys.iter().map(|k| k + base).collect();
            if r.chance(1, 3) {
                s.cmd = vec![gen::text(r)];
            }
            if r.chance(1, 3) {
                // (among the values: words that are keywords of the rule grammar — a path may be called WITH)
                let pre = ["src", "out/", "./x", "a//b", "", "\u{e9}", " ", "/", "x/../y", "d/", "WITH", "FROM", "IN", "MATCH", "PRODUCTS", "MATERIALS"];
                let kw = ["WITH", "FROM", "IN", "MATCH", "PRODUCTS", "ALLOW"];
                let pat = if r.chance(1, 6) { r.pick(&kw).to_string() } else { gen::text(r) };
                let from = if r.chance(1, 5) { r.pick(&kw).to_string() } else { gen::text(r) };
                s.exp_mat.push(vec!["MATCH".into(), pat, "IN".into(), r.pick(&pre).to_string(), "WITH".into(), "PRODUCTS".into(), "IN".into(), r.pick(&pre).to_string(), "FROM".into(), from]);
                s.exp_mat.push(vec!["MATCH".into(), "*".into(), "IN".into(), "src".into(), "WITH".into(), "MATERIALS".into(), "IN".into(), "dst".into(), "FROM".into(), s.name.clone()]);
                s.exp_prod.push(vec![r.pick(&["CREATE", "DELETE", "MODIFY", "ALLOW", "REQUIRE", "DISALLOW"]).to_string(), "out/*".into()]);
            }
        }
        l.readme = gen::text(r);
        if r.chance(1, 4) {
            // keys in the table that were built from raw key bytes (no keyid_hash_algorithms) or are
            // declared with an unimplemented scheme; they sign nothing here
            let extra = match r.below(3) {
                0 => KeySpec { kind: KeyKind::EcdsaBare, seed: r.next() >> 16 },
                1 => KeySpec { kind: KeyKind::Ed, seed: r.next() >> 16 },
                _ => KeySpec { kind: KeyKind::RsaUnknown, seed: 0 },
            };
            keys.push(extra);
            l.key_table.push(keys.len() - 1);
        }
        if r.chance(1, 3) {
            // expiry dates where calendars like to disagree
            l.expires = r.pick(&[
                "2026-12-30T00:00:00Z", "2027-01-01T00:00:00Z", "2024-12-31T23:59:59Z", "2025-12-29T12:00:00Z", "2028-02-29T00:00:00Z",
                "2100-02-28T23:59:59Z", "2038-01-19T03:14:08Z", "1999-12-31T23:59:59Z", "2021-01-03T00:00:00Z", "2032-12-27T00:00:00Z",
                // leap seconds (RFC 3339 allows the seconds field 60)
                "2016-12-31T23:59:60Z", "2030-06-30T23:59:60Z", "2027-03-04T05:06:60Z",
            ]).to_string();
        }
        BodySpec::Layout(l)
    }
}

fn base_trace(seed: u64, tier: Tier, mode: Mode) -> (CeremonyTrace, Rng) {
    let mut r = Rng::stream(seed, "ceremony");
    let mut kr = Rng::stream(seed, "keys");
    let ed_only = r.chance(if tier == Tier::Quick { 70 } else { 45 }, 100);
    let m = 1 + r.weighted(&[35, 30, 20, 10, 5]);
    let mut keys = keys::draw_keys(&mut kr, m + 2, ed_only, true);
    // now and then two signers share their key material (one key under two ids / two schemes)
    if m >= 2 && r.chance(1, 10) {
        let alias = match keys[0].kind {
            KeyKind::Ed => Some(KeySpec { kind: KeyKind::EdPk8, seed: keys[0].seed }),
            KeyKind::EdPk8 => Some(KeySpec { kind: KeyKind::Ed, seed: keys[0].seed }),
            KeyKind::Rsa2048S256 => Some(KeySpec { kind: KeyKind::Rsa2048S512, seed: 0 }),
            KeyKind::Rsa2048S512 => Some(KeySpec { kind: KeyKind::Rsa2048S256, seed: 0 }),
            KeyKind::Rsa4096S256 => Some(KeySpec { kind: KeyKind::Rsa4096S512, seed: 0 }),
            KeyKind::Rsa4096S512 => Some(KeySpec { kind: KeyKind::Rsa4096S256, seed: 0 }),
            _ => None,
        };
        if let Some(a) = alias {
            if !keys.contains(&a) {
                keys[1] = a;
            }
        }
    }
    let signers: Vec<usize> = (0..m).collect();
    let body = gen_body(&mut r, seed, &mut keys);
    let mut hr = Rng::stream(seed, "hash");
    let reps = if mode == Mode::C04 { if tier == Tier::Quick { 6 } else { 16 } } else { 1 };
    let t = CeremonyTrace {
        mode,
        keys,
        body,
        signers: signers.clone(),
        resign: vec![],
        builder_path: r.chance(1, 2),
        wire: match r.below(3) {
            0 => Wire::Compact,
            1 => Wire::Pretty,
            _ => Wire::Writer { chunked: r.chance(3, 4), eintr_pct: *r.pick(&[0u64, 10, 40]) },
        },
        ops: vec![],
        authorized: signers,
        threshold: m as u32,
        hash_seeds: (0..reps).map(|_| hr.next()).collect(),
        perm_seeds: (0..reps).map(|i| if i == 0 { 0 } else { hr.next() | 1 }).collect(),
        io_seed: hr.next(),
        labels: vec![],
        auth_scheme: vec![],
        auth_json_alias: vec![],
        frozen_sigs: None,
        typed_api: r.chance(1, 2),
        raw_path: {
            let mut rr = Rng::stream(seed, "rawpath");
            if rr.chance(1, 4) {
                Some(rr.below(16) as u8)
            } else {
                None
            }
        },
        mem_sigdup: vec![],
        same_thread: gen::same_thread_block(seed),
        canon_pair: None,
        canon_nest: None,
        typed_twin: None,
        refused_sign: {
            let mut rr = Rng::stream(seed, "refused");
            if rr.chance(1, 6) {
                (1 + rr.below(3) as u8) | ((rr.below(4) as u8) << 2)
            } else {
                0
            }
        },
    };
    (t, r)
}

pub fn run_c04(tier: Tier, seed: u64, index: u64, rec: &mut RunRecord) {
    let (mut t, mut r) = base_trace(seed, tier, Mode::C04);
    let m = t.signers.len();
    let outsider = m; // keys[m], keys[m+1] are outsiders
    // authorized set: subset / superset / duplicates / empty
    match r.weighted(&[40, 15, 15, 15, 5, 10]) {
        0 => {}
        1 => {
            let k = r.idx(m);
            t.authorized.push(t.authorized[k]);
            t.labels.push("AUTH-DUP".into());
        }
        2 => {
            t.authorized.push(outsider);
            t.labels.push("AUTH-SUPERSET".into());
        }
        3 => {
            let k = r.idx(t.authorized.len());
            t.authorized.remove(k);
            t.labels.push("AUTH-SUBSET".into());
        }
        4 => {
            t.authorized.clear();
            t.labels.push("AUTH-EMPTY".into());
        }
        _ => {
            t.authorized = vec![outsider, outsider + 1];
            t.labels.push("AUTH-DISJOINT".into());
        }
    }
    if r.chance(1, 8) && !t.authorized.is_empty() {
        // one authorized key is declared with another (possibly unimplemented) scheme; its signature is
        // presented under the re-declared key's id: nobody has signed with that identity
        let pos = r.idx(t.authorized.len());
        let k = t.authorized[pos];
        let scheme = *r.pick(&["rsassa-pss-sha384", "ed25519", "ecdsa-sha2-nistp256", "rsassa-pss-sha256", "rsassa-pss-sha512", "x"]);
        // (the key's own scheme would only give the same key another id — its signature verifies)
        let own = match t.keys[k].kind {
            KeyKind::Ed | KeyKind::EdPk8 => "ed25519",
            KeyKind::Ecdsa | KeyKind::EcdsaBare => "ecdsa-sha2-nistp256",
            KeyKind::Rsa2048S256 | KeyKind::Rsa4096S256 => "rsassa-pss-sha256",
            KeyKind::Rsa2048S512 | KeyKind::Rsa4096S512 => "rsassa-pss-sha512",
            KeyKind::RsaUnknown => "rsassa-pss-sha384",
        };
        if let Some(pk) = redeclared(&keys::key(t.keys[k]), scheme) {
            if scheme != own && key_id_string(&pk) != keys::key(t.keys[k]).id {
                t.auth_scheme.push((pos, scheme.to_string()));
                if let Some(sp) = t.signers.iter().position(|s| *s == k) {
                    t.ops.push(DocOp::RelabelId { at: sp, id: key_id_string(&pk) });
                }
                t.labels.push("AUTH-SCHEME-REDECLARED".into());
            }
        }
    }
    if r.chance(1, 8) && !t.authorized.is_empty() {
        // one key listed twice, the second time as a key object deserialized from JSON that names
        // another key's id; its signature is repeated under that id
        let pos = r.idx(t.authorized.len());
        let k = t.authorized[pos];
        t.authorized.push(k);
        let alias_key = outsider + 1;
        t.auth_json_alias.push((t.authorized.len() - 1, alias_key));
        if let Some(sp) = t.signers.iter().position(|s| *s == k) {
            t.ops.push(DocOp::SigDupAs { at: sp, to: alias_key });
        }
        t.labels.push("AUTH-JSON-ALIAS".into());
    }
    t.threshold = match r.weighted(&[10, 30, 30, 15, 10, 5]) {
        0 => 0,
        1 => 1,
        2 => m as u32,
        3 => m as u32 + 1,
        4 => 1 + r.below(m as u64 + 1) as u32,
        _ => u32::MAX,
    };
    // channel faults on the signature messages
    let nf = r.weighted(&[25, 45, 20, 10]);
    for _ in 0..nf {
        let n = m + t.resign.len();
        match r.below(9) {
            0 => {
                t.ops.push(DocOp::SigStrip(r.idx(n)));
                t.labels.push("SIGDROP".into());
            }
            1 => {
                if r.chance(1, 4) {
                    t.ops.push(DocOp::SigDupCase { at: r.idx(n) });
                    t.labels.push("SIGDUP-UPPERCASE".into());
                } else {
                    t.ops.push(DocOp::SigDup(r.idx(n)));
                    t.labels.push("SIGDUP".into());
                }
            }
            2 => {
                t.ops.push(DocOp::SigShuffle(r.next()));
                t.labels.push("SIGSHUF".into());
            }
            3 if m >= 2 => {
                let at = r.idx(m);
                let from = (at + 1 + r.idx(m - 1)) % m;
                t.ops.push(DocOp::SigValueFrom { at, from });
                t.labels.push("SIGSWAP".into());
            }
            4 => {
                t.ops.push(DocOp::Relabel { at: r.idx(n), to: if r.chance(1, 2) { outsider } else { r.idx(m) } });
                t.labels.push("RELABEL".into());
            }
            5 => {
                t.ops.push(DocOp::SigFlip { at: r.idx(n), bit: r.idx(4096) });
                t.labels.push("SIGFLIP".into());
            }
            6 => {
                t.resign.push(r.idx(m));
                t.labels.push("RESIGN".into());
            }
            7 => {
                // an unauthorized party adds its own (valid) signature
                t.signers.push(outsider + 1);
                t.labels.push("UNAUTH-SIGNER".into());
            }
            _ => {
                // strip everything
                for _ in 0..n {
                    t.ops.push(DocOp::SigStrip(0));
                }
                t.labels.push("SIGNONE".into());
            }
        }
    }
    if r.chance(1, 10) {
        // the block object is put together in memory: an entry of its signature list is repeated after
        // parsing (what a caller that merges signature lists, or signs with one key twice, ends up with)
        let n = (m + t.resign.len()).max(1);
        t.mem_sigdup.push(r.idx(n));
        if r.chance(1, 3) {
            t.mem_sigdup.push(r.idx(n));
        }
        t.labels.push("SIGDUP-IN-MEMORY".into());
    }
    if r.chance(1, 6) {
        // the content is edited after signing: no signature is valid over the block's content any more.
        // The untouched block was verified by the same process just before (a consumer that has seen the
        // genuine document, then receives the edited one with the signatures it already knows).
        let signed = body_value(&t.body, &t.keys);
        let mut ls = vec![];
        gen::leaves(&signed, "/signed", &mut ls);
        if !ls.is_empty() {
            let (ptr, old) = r.pick(&ls).clone();
            let mut genuine = t.clone();
            genuine.labels = vec!["GENUINE".into()];
            genuine.authorized = genuine.signers.clone();
            genuine.auth_scheme.clear();
            genuine.auth_json_alias.clear();
            genuine.threshold = 1;
            t.ops.push(DocOp::Set { ptr, value: gen::mutate_leaf(&mut r, &old) });
            t.labels.push("CONTENT-EDITED".into());
            crate::crash::write_current_trace(&Trace::Seq(vec![Trace::Ceremony(genuine.clone()), Trace::Ceremony(t.clone())]));
            let p = prepare(&t);
            let o = finish(&genuine, &p);
            let f = judge_ceremony(&genuine, &o);
            fold(&genuine, &o, f, rec, seed, index, "C04");
            exec_prepared(&t, &p, rec, seed, index, "C04", Some(&genuine));
            return;
        }
    }
    if t.same_thread && !t.ops.is_empty() && r.chance(1, 2) {
        // on the long-lived thread: the untouched block is verified first (a consumer that has seen the
        // genuine document, then receives the same content with damaged, swapped or relabelled signature
        // entries): what the first call learnt must not count for the second
        let mut genuine = t.clone();
        genuine.ops.clear();
        genuine.mem_sigdup.clear();
        genuine.labels = vec!["GENUINE".into()];
        genuine.authorized = genuine.signers.clone();
        genuine.auth_scheme.clear();
        genuine.auth_json_alias.clear();
        genuine.threshold = 1;
        t.labels.push("AFTER-GENUINE".into());
        crate::crash::write_current_trace(&Trace::Seq(vec![Trace::Ceremony(genuine.clone()), Trace::Ceremony(t.clone())]));
        let p = prepare(&t);
        let o = finish(&genuine, &p);
        let f = judge_ceremony(&genuine, &o);
        fold(&genuine, &o, f, rec, seed, index, "C04");
        exec_prepared(&t, &p, rec, seed, index, "C04", Some(&genuine));
        return;
    }
    exec_and_fold(&t, rec, seed, index, "C04");
}

pub fn run_c09(tier: Tier, seed: u64, index: u64, rec: &mut RunRecord) {
    let (mut t, mut r) = base_trace(seed, tier, Mode::C09);
    let m = t.signers.len();
    // positive: must verify with threshold = number of signers
    t.labels = vec!["POSITIVE".into()];
    let own = exec_and_fold(&t, rec, seed, index, "C09");
    if !own.is_empty() {
        return;
    }
    if rec.vacuous > 0 {
        return;
    }
    // negative 1: one authorized key replaced by another party's key
    let mut n1 = t.clone();
    let k = r.idx(m);
    n1.authorized[k] = m + r.idx(2);
    n1.labels = vec!["KEY-SUBSTITUTED".into()];
    exec_and_fold(&n1, rec, seed, index, "C09");
    // negative 2: single-bit flips of one signature value
    let flips = if tier == Tier::Quick { 6 } else { 24 };
    for _ in 0..flips {
        let mut n2 = t.clone();
        n2.ops.push(DocOp::SigFlip { at: r.idx(m), bit: r.idx(8 * 512) });
        n2.labels = vec!["SIGFLIP".into()];
        exec_and_fold(&n2, rec, seed, index, "C09");
    }
    // negative 3: the same key material declared with another scheme — the signature is presented
    // under the re-declared key's id, so that it is really checked against that key
    for (i, sidx) in t.signers.clone().iter().enumerate() {
        let own = match t.keys[*sidx].kind {
            KeyKind::Ed | KeyKind::EdPk8 => "ed25519",
            KeyKind::Ecdsa | KeyKind::EcdsaBare => "ecdsa-sha2-nistp256",
            KeyKind::Rsa2048S256 | KeyKind::Rsa4096S256 => "rsassa-pss-sha256",
            KeyKind::Rsa2048S512 | KeyKind::Rsa4096S512 => "rsassa-pss-sha512",
            KeyKind::RsaUnknown => "rsassa-pss-sha384",
        };
        for other in ["ed25519", "ecdsa-sha2-nistp256", "rsassa-pss-sha256", "rsassa-pss-sha512", "rsassa-pss-sha384"] {
            if other == own {
                continue;
            }
            let k = keys::key(t.keys[*sidx]);
            let pk = match redeclared(&k, other) {
                Some(p) => p,
                None => continue,
            };
            let mut n3 = t.clone();
            n3.auth_scheme = vec![(i, other.to_string())];
            n3.ops.push(DocOp::RelabelId { at: i, id: key_id_string(&pk) });
            n3.labels = vec!["SCHEME-REDECLARED".into()];
            exec_and_fold(&n3, rec, seed, index, "C09");
            rec.probe("same key material declared with another scheme");
            // and without relabelling: the re-declared key simply is another key
            let mut n4 = t.clone();
            n4.auth_scheme = vec![(i, other.to_string())];
            n4.labels = vec!["SCHEME-REDECLARED-NOLABEL".into()];
            exec_and_fold(&n4, rec, seed, index, "C09");
        }
    }
}

/// Words with a meaning of their own in the wire format: an edit to another word of the same class
/// still parses and changes what is enforced.
fn alternates(s: &str) -> Vec<&'static str> {
    const RULES: [&str; 6] = ["CREATE", "DELETE", "MODIFY", "ALLOW", "REQUIRE", "DISALLOW"];
    const SCHEMES: [&str; 4] = ["ed25519", "ecdsa-sha2-nistp256", "rsassa-pss-sha256", "rsassa-pss-sha512"];
    const TYPES: [&str; 3] = ["ed25519", "ecdsa", "rsa"];
    const ALGS: [&str; 2] = ["sha256", "sha512"];
    let mut v: Vec<&'static str> = vec![];
    for class in [&RULES[..], &SCHEMES[..], &TYPES[..], &ALGS[..], &["MATERIALS", "PRODUCTS"][..], &["link", "layout", "step", "inspection"][..]] {
        if class.contains(&s) {
            v.extend(class.iter().filter(|x| **x != s));
        }
    }
    v
}

/// The property's near-collision edits for one string.
/// Two different JSON values nested `depth` deep. Variant 0: an object whose member "a" is the deep value
/// and whose member "z", written after it, differs; 1: nested arrays that differ in the innermost element;
/// 2: nested objects that differ in the innermost member; 3: an array whose first element is the deep value
/// and whose second element differs.
pub fn nested_pair(depth: usize, variant: u8) -> (Value, Value) {
    let deep = |leaf: Value, objects: bool| -> Value {
        let mut v = leaf;
        for _ in 0..depth {
            v = if objects { json!({ "k": v }) } else { Value::Array(vec![v]) };
        }
        v
    };
    match variant % 4 {
        0 => (json!({"a": deep(json!(0), false), "z": 1}), json!({"a": deep(json!(0), false), "z": 2})),
        1 => (deep(json!(0), false), deep(json!(1), false)),
        2 => (deep(json!("x"), true), deep(json!("y"), true)),
        _ => (Value::Array(vec![deep(json!(0), true), json!(1)]), Value::Array(vec![deep(json!(0), true), json!(2)])),
    }
}

/// A control character / quote / backslash <-> the two (six) characters of its escape spelling: what a writer
/// that escapes too little, or a reader that unescapes too much, folds onto one another.
pub fn escape_respellings(s: &str) -> Vec<String> {
    let mut v = vec![];
    for (ch, esc) in [('\t', "\\t"), ('\n', "\\n"), ('\r', "\\r"), ('\u{8}', "\\b"), ('\u{c}', "\\f"), ('\u{1}', "\\u0001"), ('\u{1f}', "\\u001f"), ('"', "\\\""), ('\\', "\\\\")] {
        if s.contains(ch) {
            v.push(s.replacen(ch, esc, 1));
        }
        if s.contains(esc) {
            v.push(s.replacen(esc, &ch.to_string(), 1));
        }
    }
    v
}

/// Line endings re-spelled: LF <-> CRLF <-> CR (what a writer that normalises line endings folds together).
pub fn line_ending_respellings(s: &str) -> Vec<String> {
    let mut v = vec![];
    if s.contains("\r\n") {
        v.push(s.replace("\r\n", "\n"));
        v.push(s.replace("\r\n", "\r"));
    } else if s.contains('\n') {
        v.push(s.replace('\n', "\r\n"));
        v.push(s.replace('\n', "\r"));
    } else if s.contains('\r') {
        v.push(s.replace('\r', "\n"));
        v.push(s.replace('\r', "\r\n"));
    }
    v
}

pub fn near_collisions(s: &str) -> Vec<String> {
    let mut v = vec![];
    // spellings a path normaliser would not tell apart
    v.push(format!("{s}/"));
    v.push(format!("./{s}"));
    v.push(format!("{s}/."));
    if s.contains('/') {
        v.push(s.replacen('/', "//", 1));
        v.push(s.replacen('/', "/./", 1));
    }
    if s.len() > 1 && s.ends_with('/') {
        v.push(s[..s.len() - 1].to_string());
    }
    // letter case
    if s.to_uppercase() != s {
        v.push(s.to_uppercase());
    }
    if s.to_lowercase() != s {
        v.push(s.to_lowercase());
    }
    if s.contains('\n') {
        v.push(s.replacen('\n', "\\n", 1));
    }
    if s.contains("\\n") {
        v.push(s.replacen("\\n", "\n", 1));
    }
    v.extend(escape_respellings(s));
    v.push(format!("{s}\n"));
    // line endings: LF <-> CRLF <-> CR
    v.push(format!("{s}\r\n"));
    v.push(format!("{s}\r"));
    if s.contains("\r\n") {
        v.push(s.replace("\r\n", "\n"));
    } else if s.contains('\n') {
        v.push(s.replace('\n', "\r\n"));
        v.push(s.replace('\n', "\r"));
    }
    v.push(format!("{s}\\n"));
    v.push(format!("{s}\\"));
    v.push(format!("{s}\""));
    v.push(format!("\\{s}"));
    v.push(format!("{s}\u{0001}"));
    v.push(format!("{s}\t"));
    v.push(format!("{s}\\t"));
    v.push(format!("{s}\\u0041"));
    v.push(format!("{s}\",\"x\":\"y"));
    if s.len() > 1 {
        v.push(s[..s.len() - s.chars().last().unwrap().len_utf8()].to_string());
    }
    // white space: what a tokenizer would not tell apart
    v.push(format!("{s} "));
    v.push(format!(" {s}"));
    v.push(format!("{s}\t"));
    if s.contains(' ') {
        v.push(s.replacen(' ', "  ", 1));
        v.push(s.replacen(' ', "\t", 1));
        v.push(s.replacen(' ', "", 1));
    }
    v
}

/// A document with a LARGE collection (sizes around the powers of two, where implementations switch
/// strategy: batches, worker threads, buffers), edited at the extremes of the collection's sorted order.
fn c05_big(tier: Tier, seed: u64, index: u64, rec: &mut RunRecord) {
    let (mut t, _) = base_trace(seed, tier, Mode::C05);
    let mut r = Rng::stream(seed, "c05-big");
    let n = *r.pick(&[255usize, 257, 1023, 1025, 2047, 2049, 2050, 2051, 4095, 4097, 4099, 8193]) + r.idx(2) * 4;
    let mut arts = Artifacts::new();
    for i in 0..n {
        arts.insert(format!("out/{:05}.o", i), gen::digest_of(i as u64 % 97, false));
    }
    let as_array = r.chance(1, 3);
    t.body = BodySpec::Link(LinkSpec {
        name: "big".into(),
        materials: Artifacts::new(),
        products: if as_array { Artifacts::new() } else { arts },
        stdout: Some(String::new()),
        stderr: Some(String::new()),
        retval: Some(0),
        other: BTreeMap::new(),
        command: if as_array { (0..n).map(|i| format!("arg{i}")).collect() } else { vec![] },
        env: None,
    });
    t.signers.truncate(2);
    t.authorized = t.signers.clone();
    t.resign.clear();
    t.wire = Wire::Compact;
    t.threshold = 1;
    t.typed_api = false;
    t.raw_path = None;
    let prepared = prepare(&t);
    let mut genuine = t.clone();
    genuine.labels = vec!["GENUINE".into(), "BIG".into()];
    {
        let o = finish(&genuine, &prepared);
        fold(&genuine, &o, vec![], rec, seed, index, "C05");
    }
    let mut edits: Vec<DocOp> = vec![];
    if as_array {
        for i in [0, 1, n / 2, n - 3, n - 2, n - 1] {
            edits.push(DocOp::Set { ptr: format!("/signed/command/{i}"), value: json!("changed") });
            edits.push(DocOp::Remove { ptr: format!("/signed/command/{i}") });
        }
        edits.push(DocOp::Insert { ptr: "/signed/command".into(), index: n, values: vec![json!("one-more")] });
        edits.push(DocOp::Insert { ptr: "/signed/command".into(), index: 0, values: vec![json!("one-more")] });
    } else {
        for i in [0, 1, n / 2, n - 3, n - 2, n - 1] {
            let p = format!("/signed/products/out~1{:05}.o", i);
            edits.push(DocOp::Set { ptr: format!("{p}/sha256"), value: json!(gen::sha256_hex(b"changed")) });
            edits.push(DocOp::Remove { ptr: p });
        }
        edits.push(DocOp::Set { ptr: "/signed/products/zzz-sorts-last".into(), value: json!({"sha256": gen::sha256_hex(b"new")}) });
        edits.push(DocOp::Set { ptr: "/signed/products/a-sorts-first".into(), value: json!({"sha256": gen::sha256_hex(b"new")}) });
    }
    for e in edits {
        let mut tt = t.clone();
        tt.ops = vec![e];
        tt.labels = vec!["EDIT".into(), "BIG".into()];
        exec_prepared(&tt, &prepared, rec, seed, index, "C05", Some(&genuine));
    }
    rec.probe("document with a collection of 255 .. 8197 members, edited at the extremes of its order");
    // and values nested deep (around 128, where parsers and writers like to draw a line)
    for depth in [64usize, 127, 128, 129, 130, 200, 513] {
        let mut tt = t.clone();
        tt.ops.clear();
        tt.canon_nest = Some((depth, r.below(4) as u8));
        tt.labels = vec!["CANON-NEST".into()];
        exec_prepared(&tt, &prepared, rec, seed, index, "C05", None);
    }
    rec.probe("values nested 64 .. 513 deep compared in canonical form");
}

pub fn run_c05(tier: Tier, seed: u64, index: u64, rec: &mut RunRecord) {
    // one document in twenty-five is a large one
    if Rng::stream(seed, "c05-big?").chance(1, 25) {
        return c05_big(tier, seed, index, rec);
    }
    let (mut t, mut r) = base_trace(seed, tier, Mode::C05);
    t.wire = if r.chance(1, 2) { Wire::Compact } else { Wire::Pretty };
    t.threshold = 1;
    // verify(1, [signer]) for every signer: authorized = one signer at a time is equivalent to
    // threshold 1 over all signers (any valid signature makes it Ok)
    let signed = body_value(&t.body, &t.keys);
    let prepared = prepare(&t);
    // the genuine document is verified first (it must verify), as a consumer would have done before
    // an edited copy shows up; it is the history of every edit below
    let mut genuine = t.clone();
    genuine.labels = vec!["GENUINE".into()];
    {
        let o = finish(&genuine, &prepared);
        if o.unsignable.is_none() && o.parsed && !o.results.iter().all(|r| r.is_ok()) {
            let f = vec![Finding { prop: "C09".into(), clause: "own-signature-rejected-after-wire".into(), detail: format!("genuine document: {:?}", o.results) }];
            fold(&genuine, &o, f, rec, seed, index, "C05");
        } else {
            fold(&genuine, &o, vec![], rec, seed, index, "C05");
        }
    }
    if matches!(t.body, BodySpec::Layout(_)) {
        for variant in 0..2u8 {
            let mut tt = t.clone();
            tt.ops.clear();
            tt.typed_twin = Some(variant);
            tt.labels = vec!["TYPED-KEY-TABLE-TWIN".into()];
            exec_prepared(&tt, &prepared, rec, seed, index, "C05", None);
        }
    }
    let mut ls = vec![];
    gen::leaves(&signed, "/signed", &mut ls);
    let _ = tier;
    c05_container_edits(&t, &prepared, &genuine, &signed, rec, seed, index);
    for (ptr, old) in &ls {
        let mut edits: Vec<DocOp> = vec![];
        // one generic mutation of the same JSON type
        edits.push(DocOp::Set { ptr: ptr.clone(), value: gen::mutate_leaf(&mut r, old) });
        if let Value::Number(n) = old {
            // the corners of the integer range, and the number that a wrap-around would fold onto this one
            for x in [json!(u64::MAX), json!(1u64 << 63), json!(i64::MAX), json!(-1), json!(i64::MIN), json!(0), json!(u32::MAX as u64 + 1), json!(1u64 << 32)] {
                if x != *old {
                    edits.push(DocOp::Set { ptr: ptr.clone(), value: x });
                }
            }
            if let Some(i) = n.as_i64() {
                if i < 0 {
                    edits.push(DocOp::Set { ptr: ptr.clone(), value: json!(i as u64) });
                }
            }
        }
        match old {
            Value::String(s) => {
                // the family of near-collision spellings of this string, with every control character and a
                // few separators appended in turn: pairwise different strings, pairwise different encodings
                {
                    let mut family: Vec<String> = near_collisions(s);
                    family.push(s.clone());
                    for c in (0u32..0x20).chain([0x7f, 0x80, 0x85, 0xa0, 0x2028, 0x2029, 0xfeff, 0xfffd, 0x10000]) {
                        if let Some(ch) = char::from_u32(c) {
                            family.push(format!("{s}{ch}"));
                            family.push(format!("{s}{ch}x"));
                        }
                    }
                    family.sort();
                    family.dedup();
                    let mut by_bytes: BTreeMap<Vec<u8>, String> = BTreeMap::new();
                    for m in family {
                        if let Ok(c) = Json::canonicalize(&json!(m)) {
                            if let Some(other) = by_bytes.get(&c) {
                                let mut tt = t.clone();
                                tt.ops.clear();
                                tt.canon_pair = Some((other.clone(), m.clone()));
                                tt.labels = vec!["CANON-PAIR".into()];
                                exec_prepared(&tt, &prepared, rec, seed, index, "C05", None);
                                break;
                            }
                            by_bytes.insert(c, m);
                        }
                    }
                    rec.probe("family of spellings of one string compared pairwise in canonical form");
                }
                for n in near_collisions(s) {
                    edits.push(DocOp::Set { ptr: ptr.clone(), value: json!(n) });
                }
                edits.push(DocOp::Set { ptr: ptr.clone(), value: Value::Null });
                edits.push(DocOp::Set { ptr: ptr.clone(), value: json!("") });
                for a in alternates(s) {
                    edits.push(DocOp::Set { ptr: ptr.clone(), value: json!(a) });
                }
                // a date: the same instant shifted by a year, a month, a day, an hour, a second
                if let Some((secs, _)) = crate::refmodel::rfc3339_instant(s) {
                    for d in [365 * 86_400i64, -365 * 86_400, 366 * 86_400, 31 * 86_400, 86_400, -86_400, 3600, 1, -1, 7 * 86_400] {
                        let n = secs + d;
                        if (0..253_402_300_799).contains(&n) {
                            edits.push(DocOp::Set { ptr: ptr.clone(), value: json!(crate::refmodel::render_rfc3339(n, None, "")) });
                        }
                    }
                    // the neighbouring leap second: ..:59 <-> ..:60
                    if s.len() >= 19 && s.is_char_boundary(17) && s.is_char_boundary(19) {
                        match &s[17..19] {
                            "59" => edits.push(DocOp::Set { ptr: ptr.clone(), value: json!(format!("{}60{}", &s[..17], &s[19..])) }),
                            "60" => edits.push(DocOp::Set { ptr: ptr.clone(), value: json!(format!("{}59{}", &s[..17], &s[19..])) }),
                            _ => {}
                        }
                    }
                    // same calendar day and time in the neighbouring years
                    if s.len() >= 4 {
                        if let Ok(y) = s[..4].parse::<i64>() {
                            for dy in [-1i64, 1] {
                                edits.push(DocOp::Set { ptr: ptr.clone(), value: json!(format!("{:04}{}", y + dy, &s[4..])) });
                            }
                        }
                    }
                }
                // a MATCH rule: splice an empty source / destination prefix in
                if s == "MATCH" && ptr.ends_with("/0") {
                    let arr = ptr[..ptr.len() - 2].to_string();
                    let rel = arr.strip_prefix("/signed").unwrap_or(&arr);
                    if let Some(a) = signed.pointer(rel).and_then(|x| x.as_array()) {
                        let strs: Vec<&str> = a.iter().filter_map(|x| x.as_str()).collect();
                        if strs.get(2) == Some(&"WITH") {
                            edits.push(DocOp::Insert { ptr: arr.clone(), index: 2, values: vec![json!("IN"), json!("")] });
                            edits.push(DocOp::Insert { ptr: arr.clone(), index: 2, values: vec![json!("IN"), json!(".")] });
                        }
                        if let Some(w) = strs.iter().position(|x| *x == "WITH") {
                            if strs.get(w + 2) == Some(&"FROM") {
                                edits.push(DocOp::Insert { ptr: arr.clone(), index: w + 2, values: vec![json!("IN"), json!("")] });
                            }
                        }
                    }
                }
            }
            Value::Number(n) => {
                if let Some(u) = n.as_u64() {
                    edits.push(DocOp::Set { ptr: ptr.clone(), value: json!(u + 1) });
                    if u > 0 {
                        edits.push(DocOp::Set { ptr: ptr.clone(), value: json!(u - 1) });
                    }
                    edits.push(DocOp::Set { ptr: ptr.clone(), value: json!(u.to_string()) });
                }
            }
            Value::Null => {
                edits.push(DocOp::Set { ptr: ptr.clone(), value: json!({}) });
                edits.push(DocOp::Set { ptr: ptr.clone(), value: json!({"k": "v"}) });
            }
            _ => {}
        }
        // structural: drop the member / element, duplicate it next to itself
        edits.push(DocOp::Remove { ptr: ptr.clone() });
        // for elements of arrays of strings: move one character across the boundary
        if let Some(pos) = ptr.rfind('/') {
            if let Ok(i) = ptr[pos + 1..].parse::<usize>() {
                let parent = &ptr[..pos];
                if let (Some(Value::String(a)), Some(Value::String(b))) = (
                    signed.pointer(parent.strip_prefix("/signed").unwrap_or(parent)).and_then(|p| p.get(i)),
                    signed.pointer(parent.strip_prefix("/signed").unwrap_or(parent)).and_then(|p| p.get(i + 1)),
                ) {
                    if !a.is_empty() {
                        let c = a.chars().last().unwrap();
                        let a2: String = a[..a.len() - c.len_utf8()].to_string();
                        let b2 = format!("{c}{b}");
                        // two edits in one op list
                        let mut tt = t.clone();
                        tt.ops = vec![
                            DocOp::Set { ptr: format!("{parent}/{i}"), value: json!(a2) },
                            DocOp::Set { ptr: format!("{parent}/{}", i + 1), value: json!(b2) },
                        ];
                        tt.labels = vec!["ARRAY-BOUNDARY".into()];
                        exec_prepared(&tt, &prepared, rec, seed, index, "C05", Some(&genuine));
                    }
                }
                // duplicate the element
                edits.push(DocOp::Set { ptr: format!("{parent}/{}", 99999), value: old.clone() });
                // an empty element next to it; the element split at its first blank
                edits.push(DocOp::Insert { ptr: parent.to_string(), index: i, values: vec![json!("")] });
                if let Value::String(sv) = old {
                    if let Some((a, b)) = sv.split_once(' ') {
                        let mut tt = t.clone();
                        tt.ops = vec![DocOp::Set { ptr: ptr.clone(), value: json!(a) }, DocOp::Insert { ptr: parent.to_string(), index: i + 1, values: vec![json!(b)] }];
                        tt.labels = vec!["ARG-SPLIT".into()];
                        exec_prepared(&tt, &prepared, rec, seed, index, "C05", Some(&genuine));
                    }
                }
            } else {
                // object member: rename the key (to another word of its class, or by one character)
                {
                    let key = ptr[pos + 1..].replace("~1", "/").replace("~0", "~");
                    for a in alternates(&key) {
                        edits.push(DocOp::Rename { ptr: ptr.clone(), to: a.to_string() });
                    }
                    edits.push(DocOp::Rename { ptr: ptr.clone(), to: format!("{key}x") });
                }
                // object member: swap key and value when both are strings
                if let Value::String(v) = old {
                    let parent = &ptr[..pos];
                    let key = ptr[pos + 1..].replace("~1", "/").replace("~0", "~");
                    let mut tt = t.clone();
                    let esc = v.replace('~', "~0").replace('/', "~1");
                    tt.ops = vec![DocOp::Remove { ptr: ptr.clone() }, DocOp::Set { ptr: format!("{parent}/{esc}"), value: json!(key) }];
                    tt.labels = vec!["KEY-VALUE-SWAP".into()];
                    exec_prepared(&tt, &prepared, rec, seed, index, "C05", Some(&genuine));
                }
            }
        }
        for e in edits {
            let mut tt = t.clone();
            tt.ops = vec![e];
            tt.labels = vec!["EDIT".into()];
            exec_prepared(&tt, &prepared, rec, seed, index, "C05", Some(&genuine));
        }
    }
}

fn c05_container_edits(t: &CeremonyTrace, prepared: &Prepared, genuine: &CeremonyTrace, signed: &Value, rec: &mut RunRecord, seed: u64, index: u64) {
    // whole members / elements: drop, rename (objects), duplicate or swap with the neighbour (arrays)
    let mut cs = vec![];
    gen::containers(signed, "/signed", &mut cs);
    for ptr in cs {
        let mut edits = vec![DocOp::Remove { ptr: ptr.clone() }];
        if let Some(pos) = ptr.rfind('/') {
            let last = &ptr[pos + 1..];
            let parent = &ptr[..pos];
            if let Ok(i) = last.parse::<usize>() {
                let rel = parent.strip_prefix("/signed").unwrap_or(parent);
                if let Some(arr) = signed.pointer(rel).and_then(|x| x.as_array()) {
                    if let Some(x) = arr.get(i) {
                        edits.push(DocOp::Insert { ptr: parent.to_string(), index: i, values: vec![x.clone()] });
                    }
                }
            } else {
                let key = last.replace("~1", "/").replace("~0", "~");
                edits.push(DocOp::Rename { ptr: ptr.clone(), to: format!("{key}x") });
                edits.push(DocOp::Rename { ptr: ptr.clone(), to: format!("./{key}") });
            }
        }
        for e in edits {
            let mut tt = t.clone();
            tt.ops = vec![e];
            tt.labels = vec!["EDIT-CONTAINER".into()];
            exec_prepared(&tt, prepared, rec, seed, index, "C05", Some(genuine));
        }
    }
}

/// A history of ceremonies. Consecutive traces that sign the same thing with the same keys share one
/// signing run, as they did when the worker executed them (randomised schemes would otherwise give
/// every element its own signature bytes).
pub fn replay_seq(prop: &str, ts: &[&CeremonyTrace], rec: &mut RunRecord) -> Vec<Finding> {
    let mut last = vec![];
    let mut prepared: Option<(CeremonyTrace, Prepared)> = None;
    for t in ts {
        let reuse = match &prepared {
            Some((p, _)) => p.keys == t.keys && p.body == t.body && p.signers == t.signers && p.resign == t.resign && p.builder_path == t.builder_path,
            None => false,
        };
        if !reuse {
            prepared = Some(((*t).clone(), prepare(t)));
        }
        let p = &prepared.as_ref().unwrap().1;
        last = exec_prepared(t, p, rec, 0, 0, prop, None);
    }
    last
}

pub fn replay(prop: &str, t: &CeremonyTrace, rec: &mut RunRecord) -> Vec<Finding> {
    exec_and_fold(t, rec, 0, 0, prop)
}

pub fn minimise(prop: &str, clause: &str, t: &CeremonyTrace, history: Option<&CeremonyTrace>) -> (CeremonyTrace, bool) {
    let still = |c: &CeremonyTrace| match history {
        Some(h) => {
            let mut rec = RunRecord::default();
            replay_seq(prop, &[h, c], &mut rec).iter().any(|f| f.prop == prop && f.clause == clause)
        }
        None => {
            let o = run_ceremony(c);
            judge_ceremony(c, &o).iter().any(|f| f.prop == prop && f.clause == clause)
        }
    };
    let mut cur = t.clone();
    let mut changed = false;
    for _ in 0..200 {
        let mut cands: Vec<CeremonyTrace> = vec![];
        for i in 0..cur.ops.len() {
            let mut c = cur.clone();
            c.ops.remove(i);
            cands.push(c);
        }
        if cur.hash_seeds.len() > 1 {
            let mut c = cur.clone();
            c.hash_seeds.truncate(cur.hash_seeds.len() / 2);
            c.perm_seeds.truncate(cur.hash_seeds.len() / 2);
            cands.push(c);
        }
        if !cur.resign.is_empty() {
            let mut c = cur.clone();
            c.resign.pop();
            cands.push(c);
        }
        if cur.wire != Wire::Compact {
            let mut c = cur.clone();
            c.wire = Wire::Compact;
            cands.push(c);
        }
        if cur.builder_path {
            let mut c = cur.clone();
            c.builder_path = false;
            cands.push(c);
        }
        if cur.refused_sign != 0 {
            let mut c = cur.clone();
            c.refused_sign = 0;
            cands.push(c);
            for bit in [1u8, 2] {
                if cur.refused_sign & 3 == 3 {
                    let mut c = cur.clone();
                    c.refused_sign &= !bit;
                    cands.push(c);
                }
            }
        }
        // simplify the body
        match &cur.body {
            BodySpec::Link(l) => {
                let mut l2 = l.clone();
                l2.materials.clear();
                l2.products.clear();
                l2.env = None;
                l2.other.clear();
                l2.command.clear();
                if l2 != *l {
                    let mut c = cur.clone();
                    c.body = BodySpec::Link(l2);
                    cands.push(c);
                }
                for field in 0..3 {
                    let mut l3 = l.clone();
                    match field {
                        0 => l3.stdout = Some(String::new()),
                        1 => l3.stderr = Some(String::new()),
                        _ => l3.name = "n".into(),
                    }
                    if l3 != *l {
                        let mut c = cur.clone();
                        c.body = BodySpec::Link(l3);
                        cands.push(c);
                    }
                }
            }
            BodySpec::Layout(l) => {
                for si in 0..l.steps.len() {
                    let mut l2 = l.clone();
                    l2.steps.remove(si);
                    let mut c = cur.clone();
                    c.body = BodySpec::Layout(l2);
                    cands.push(c);
                }
                if !l.readme.is_empty() {
                    let mut l2 = l.clone();
                    l2.readme.clear();
                    let mut c = cur.clone();
                    c.body = BodySpec::Layout(l2);
                    cands.push(c);
                }
            }
        }
        let mut progress = false;
        for c in cands {
            if c != cur && still(&c) {
                cur = c;
                changed = true;
                progress = true;
                break;
            }
        }
        if !progress {
            break;
        }
    }
    (cur, changed)
}
