//! The channel scenario (C17): a document is sent through a transport that may re-spell it
//! (whitespace, \uXXXX escapes for ASCII, member order) and is decoded at the far end through every
//! decoding entry point — string, slice, streaming reader (simulated: chunking, EINTR, EIO), JSON
//! tree, a file on tmpfs. All channels must agree.

use crate::checks::{site_of, RunRecord, Tier, Trace, Violation};
use crate::exec::{self, Scratch};
use crate::gen::{self, GenOpts};
use crate::oracle::Finding;
use crate::prng::{Digest, Rng};
use crate::simio::SimReader;
use crate::world::*;
use in_toto::interchange::{DataInterchange, Json, JsonPretty};
use serde::de::DeserializeOwned;
use serde::{Deserialize, Serialize};
use serde_json::{json, Value};

#[derive(Clone, Debug, Serialize, Deserialize, PartialEq)]
pub struct ChannelTrace {
    /// which type decodes it: metablock | layout | link | wrapper | rule | step | inspection | pubkey | signature | statement | predicate
    pub kind: String,
    pub text: String,
    /// re-spelling: whitespace style, per-character escape seed, member-order seed
    pub ws: u8,
    pub escape_seed: Option<u64>,
    pub order_seed: Option<u64>,
    pub io_seed: u64,
    pub chunked: bool,
    pub eintr_pct: u64,
    pub fail_at: Option<usize>,
    /// read(2)-level faults on the file channel: (short per-mille, eintr per-mille)
    pub file_faults: Option<(u64, u64)>,
    pub labels: Vec<String>,
    /// characters put in front of and behind the document by the transport (white space for Unicode,
    /// not necessarily for JSON)
    #[serde(default)]
    pub pad: Option<(String, String)>,
    /// the document is a link signed by this key for this step: it is also delivered as a link file
    /// into a link directory and read by final-product verification (one more way for JSON to reach
    /// the parser)
    #[serde(default)]
    pub linkdir: Option<(crate::keys::KeySpec, String)>,
    /// one byte of the as-written text replaced (position, value): typically ill-formed UTF-8 inside a
    /// string; only the byte-oriented channels can be offered such a document, and they must agree on it
    #[serde(default)]
    pub raw_byte: Option<(usize, u8)>,
}

// ---------------------------------------------------------------------------------------------
// re-spelling
// ---------------------------------------------------------------------------------------------
fn write_string(s: &str, out: &mut String, r: &mut Option<Rng>) {
    out.push('"');
    for c in s.chars() {
        let esc_ascii = match r {
            Some(rr) => c.is_ascii() && rr.chance(1, 3),
            None => false,
        };
        match c {
            '"' if !esc_ascii => out.push_str("\\\""),
            '\\' if !esc_ascii => out.push_str("\\\\"),
            '\n' if !esc_ascii => out.push_str("\\n"),
            '\r' if !esc_ascii => out.push_str("\\r"),
            '\t' if !esc_ascii => out.push_str("\\t"),
            c if (c as u32) < 0x20 || esc_ascii => out.push_str(&format!("\\u{:04x}", c as u32)),
            '/' if r.as_mut().map(|rr| rr.chance(1, 4)).unwrap_or(false) => out.push_str("\\/"),
            c => out.push(c),
        }
    }
    out.push('"');
}

fn ws(out: &mut String, style: u8, depth: usize) {
    match style {
        0 => {}
        1 => out.push(' '),
        2 => {
            out.push('\n');
            for _ in 0..depth {
                out.push_str("  ");
            }
        }
        _ => out.push_str(" \t\r\n "),
    }
}

fn write_value(v: &Value, out: &mut String, style: u8, esc: &mut Option<Rng>, ord: &mut Option<Rng>, depth: usize) {
    match v {
        Value::Null => out.push_str("null"),
        Value::Bool(b) => out.push_str(if *b { "true" } else { "false" }),
        Value::Number(n) => out.push_str(&n.to_string()),
        Value::String(s) => write_string(s, out, esc),
        Value::Array(a) => {
            out.push('[');
            for (i, x) in a.iter().enumerate() {
                if i > 0 {
                    out.push(',');
                }
                ws(out, style, depth + 1);
                write_value(x, out, style, esc, ord, depth + 1);
            }
            if !a.is_empty() {
                ws(out, style, depth);
            }
            out.push(']');
        }
        Value::Object(m) => {
            out.push('{');
            let mut ks: Vec<&String> = m.keys().collect();
            if let Some(o) = ord {
                o.shuffle(&mut ks);
            }
            for (i, k) in ks.iter().enumerate() {
                if i > 0 {
                    out.push(',');
                }
                ws(out, style, depth + 1);
                write_string(k, out, esc);
                if style > 0 {
                    out.push(' ');
                }
                out.push(':');
                if style > 0 {
                    out.push(' ');
                }
                write_value(&m[*k], out, style, esc, ord, depth + 1);
            }
            if !m.is_empty() {
                ws(out, style, depth);
            }
            out.push('}');
        }
    }
}

pub fn respell(text: &str, style: u8, escape_seed: Option<u64>, order_seed: Option<u64>) -> Option<String> {
    let v: Value = serde_json::from_str(text).ok()?;
    let mut out = String::new();
    let mut esc = escape_seed.map(Rng::new);
    let mut ord = order_seed.map(Rng::new);
    write_value(&v, &mut out, style, &mut esc, &mut ord, 0);
    Some(out)
}

// ---------------------------------------------------------------------------------------------
// decoding through every channel
// ---------------------------------------------------------------------------------------------
#[derive(Debug, Clone, PartialEq)]
pub struct ChanResult {
    pub channel: String,
    pub spelling: &'static str,
    pub ok: bool,
    pub err: String,
    /// streaming channel with an injected hard error
    pub may_fail: bool,
}

pub struct ChannelOutcome {
    pub results: Vec<ChanResult>,
    /// index pairs of Ok results whose values differ
    pub unequal: Option<(usize, usize)>,
    pub panic: Option<String>,
    pub respelled: bool,
    pub io: (usize, usize, usize),
    pub file_io: (usize, usize, usize),
}

/// Compact JSON text of `v` in which the object at `target` lists member `key` twice: once with its own
/// value, once with `alt`.
fn write_with_dup(v: &Value, ptr: &str, target: &str, key: &str, alt: &Value, alt_first: bool, out: &mut String) {
    match v {
        Value::Object(m) => {
            out.push('{');
            let mut first = true;
            for (k, x) in m {
                if !first {
                    out.push(',');
                }
                first = false;
                let esc = k.replace('~', "~0").replace('/', "~1");
                let child = format!("{ptr}/{esc}");
                let kq = serde_json::to_string(k).unwrap();
                if ptr == target && k == key {
                    if alt_first {
                        out.push_str(&format!("{kq}:{},", serde_json::to_string(alt).unwrap()));
                    }
                    out.push_str(&format!("{kq}:"));
                    write_with_dup(x, &child, target, key, alt, alt_first, out);
                    if !alt_first {
                        out.push_str(&format!(",{kq}:{}", serde_json::to_string(alt).unwrap()));
                    }
                } else {
                    out.push_str(&format!("{kq}:"));
                    write_with_dup(x, &child, target, key, alt, alt_first, out);
                }
            }
            out.push('}');
        }
        Value::Array(a) => {
            out.push('[');
            for (i, x) in a.iter().enumerate() {
                if i > 0 {
                    out.push(',');
                }
                write_with_dup(x, &format!("{ptr}/{i}"), target, key, alt, alt_first, out);
            }
            out.push(']');
        }
        other => out.push_str(&serde_json::to_string(other).unwrap()),
    }
}

type Extra<T> = (&'static str, fn(&[u8]) -> Result<T, String>);

/// Ordinary documents decoded through the library's own entry points (results ignored): 1 = a link, then
/// a layout; 2 = a layout, then a link; 0 = nothing.
fn warm_up(order: u64) {
    const LINK: &[u8] = br#"{"_type":"link","name":"warm-up","materials":{},"products":{},"byproducts":{},"command":[],"environment":null}"#;
    const LAYOUT: &[u8] = br#"{"_type":"layout","expires":"2030-01-01T00:00:00Z","readme":"","keys":{},"steps":[],"inspect":[]}"#;
    let docs: &[&[u8]] = match order {
        1 => &[LINK, LAYOUT],
        2 => &[LAYOUT, LINK],
        _ => &[],
    };
    for d in docs {
        let _ = in_toto::models::MetadataWrapper::try_from_bytes(d);
        let _ = in_toto::models::MetablockBuilder::from_raw_metadata(d);
        let _ = Json::from_slice::<in_toto::models::MetadataWrapper>(d);
        let _ = Json::from_reader::<_, in_toto::models::MetadataWrapper>(*d);
        if let Ok(v) = serde_json::from_slice::<Value>(d) {
            let _ = Json::deserialize::<in_toto::models::MetadataWrapper>(&v);
        }
    }
    // (the last one decoded is a layout for order 1, a link for order 2)
}

fn decode_all<T: DeserializeOwned + PartialEq + Send + 'static>(t: &ChannelTrace, texts: Vec<(&'static str, String)>, scratch_file: std::path::PathBuf, dev: u64) -> ChannelOutcome {
    decode_all_ext::<T>(t, texts, scratch_file, dev, vec![])
}

/// `extras`: further byte-slice entry points of the library that decode the same type
fn decode_all_ext<T: DeserializeOwned + PartialEq + Send + 'static>(t: &ChannelTrace, texts: Vec<(&'static str, String)>, scratch_file: std::path::PathBuf, dev: u64, extras: Vec<Extra<T>>) -> ChannelOutcome {
    let t2 = t.clone();
    let r = exec::silenced(|| {
        exec::in_fresh_thread(t.io_seed, move || {
            // what this thread decoded before must not matter: in two runs out of three some ordinary
            // documents go through the library's decoding entry points first, on this very thread
            warm_up(t2.io_seed % 3);
            let mut results: Vec<ChanResult> = vec![];
            let mut values: Vec<Option<T>> = vec![];
            let mut io = (0, 0, 0);
            let mut file_io = (0, 0, 0);
            let mut push = |ch: &str, sp: &'static str, r: Result<T, String>, may_fail: bool, results: &mut Vec<ChanResult>, values: &mut Vec<Option<T>>| {
                match r {
                    Ok(v) => {
                        results.push(ChanResult { channel: ch.into(), spelling: sp, ok: true, err: String::new(), may_fail });
                        values.push(Some(v));
                    }
                    Err(e) => {
                        results.push(ChanResult { channel: ch.into(), spelling: sp, ok: false, err: e.chars().take(120).collect(), may_fail });
                        values.push(None);
                    }
                }
            };
            for (sp, text) in &texts {
                push("serde_json::from_str", sp, serde_json::from_str::<T>(text).map_err(|e| e.to_string()), false, &mut results, &mut values);
                push("serde_json::from_slice", sp, serde_json::from_slice::<T>(text.as_bytes()).map_err(|e| e.to_string()), false, &mut results, &mut values);
                push("Json::from_slice", sp, Json::from_slice::<T>(text.as_bytes()).map_err(|e| e.to_string()), false, &mut results, &mut values);
                push("JsonPretty::from_slice", sp, JsonPretty::from_slice::<T>(text.as_bytes()).map_err(|e| e.to_string()), false, &mut results, &mut values);
                for (name, f) in &extras {
                    push(name, sp, f(text.as_bytes()), false, &mut results, &mut values);
                }
                // JSON tree (a document that repeats a member name cannot be handed over as a tree: the tree
                // holds one of the two, it is another document)
                if t2.labels.iter().any(|l| l == "DUP-MEMBER") {
                } else {
                match serde_json::from_str::<Value>(text) {
                    Ok(tree) => {
                        push("serde_json::from_value", sp, serde_json::from_value::<T>(tree.clone()).map_err(|e| e.to_string()), false, &mut results, &mut values);
                        push("Json::deserialize", sp, Json::deserialize::<T>(&tree).map_err(|e| e.to_string()), false, &mut results, &mut values);
                        push("JsonPretty::deserialize", sp, JsonPretty::deserialize::<T>(&tree).map_err(|e| e.to_string()), false, &mut results, &mut values);
                    }
                    Err(e) => {
                        push("serde_json::from_value", sp, Err(e.to_string()), false, &mut results, &mut values);
                    }
                }
                }
                // streaming readers
                {
                    let mut rd = SimReader::new(text.as_bytes(), t2.io_seed, t2.chunked, t2.eintr_pct, None);
                    let r = serde_json::from_reader::<_, T>(&mut rd).map_err(|e| e.to_string());
                    io.0 += rd.stats.short;
                    io.1 += rd.stats.eintr;
                    push("serde_json::from_reader", sp, r, false, &mut results, &mut values);
                }
                if let Some(fa) = t2.fail_at {
                    // a stream that dies half-way; whatever the entry point keeps from it must not leak
                    // into the next call on this thread
                    let mut rd = SimReader::new(text.as_bytes(), t2.io_seed ^ 7, t2.chunked, t2.eintr_pct, Some(fa % (text.len() + 1)));
                    let r = Json::from_reader::<_, T>(&mut rd).map_err(|e| e.to_string());
                    io.2 += rd.stats.eio;
                    push("Json::from_reader+EIO", sp, r, true, &mut results, &mut values);
                    let mut rd = SimReader::new(text.as_bytes(), t2.io_seed ^ 8, t2.chunked, t2.eintr_pct, Some(fa % (text.len() + 1)));
                    let r = JsonPretty::from_reader::<_, T>(&mut rd).map_err(|e| e.to_string());
                    push("JsonPretty::from_reader+EIO", sp, r, true, &mut results, &mut values);
                }
                {
                    let mut rd = SimReader::new(text.as_bytes(), t2.io_seed ^ 1, t2.chunked, t2.eintr_pct, None);
                    let r = Json::from_reader::<_, T>(&mut rd).map_err(|e| e.to_string());
                    io.0 += rd.stats.short;
                    io.1 += rd.stats.eintr;
                    push("Json::from_reader", sp, r, false, &mut results, &mut values);
                }
                {
                    let mut rd = SimReader::new(text.as_bytes(), t2.io_seed ^ 3, t2.chunked, t2.eintr_pct, None);
                    let r = JsonPretty::from_reader::<_, T>(&mut rd).map_err(|e| e.to_string());
                    io.0 += rd.stats.short;
                    io.1 += rd.stats.eintr;
                    push("JsonPretty::from_reader", sp, r, false, &mut results, &mut values);
                }
                if let Some(fa) = t2.fail_at {
                    let mut rd = SimReader::new(text.as_bytes(), t2.io_seed ^ 2, t2.chunked, t2.eintr_pct, Some(fa % (text.len() + 1)));
                    let r = serde_json::from_reader::<_, T>(&mut rd).map_err(|e| e.to_string());
                    io.2 += rd.stats.eio;
                    push("serde_json::from_reader+EIO", sp, r, true, &mut results, &mut values);
                }
                // a file on tmpfs, optionally with read(2)-level faults (short reads, EINTR)
                if std::fs::write(&scratch_file, text.as_bytes()).is_ok() {
                    if let Some((short, eintr)) = t2.file_faults {
                        crate::seams::read_arm(dev, t2.io_seed, short, eintr, 0);
                    }
                    let r = std::fs::File::open(&scratch_file)
                        .map_err(|e| e.to_string())
                        .and_then(|f| serde_json::from_reader::<_, T>(std::io::BufReader::new(f)).map_err(|e| e.to_string()));
                    let r2 = std::fs::read_to_string(&scratch_file).map_err(|e| e.to_string()).and_then(|s| serde_json::from_str::<T>(&s).map_err(|e| e.to_string()));
                    if t2.file_faults.is_some() {
                        let (_c, s, e, _) = crate::seams::read_disarm();
                        file_io.0 += s;
                        file_io.1 += e;
                    }
                    push("file: from_reader(BufReader<File>)", sp, r, false, &mut results, &mut values);
                    push("file: read_to_string + from_str", sp, r2, false, &mut results, &mut values);
                }
            }
            if let Some((pos, val)) = t2.raw_byte {
                let mut raw = t2.text.clone().into_bytes();
                if !raw.is_empty() {
                    let p = pos % raw.len();
                    raw[p] = val;
                    let sp = "raw-bytes";
                    push("serde_json::from_slice", sp, serde_json::from_slice::<T>(&raw).map_err(|e| e.to_string()), false, &mut results, &mut values);
                    push("Json::from_slice", sp, Json::from_slice::<T>(&raw).map_err(|e| e.to_string()), false, &mut results, &mut values);
                    push("JsonPretty::from_slice", sp, JsonPretty::from_slice::<T>(&raw).map_err(|e| e.to_string()), false, &mut results, &mut values);
                    for (name, f) in &extras {
                        push(name, sp, f(&raw), false, &mut results, &mut values);
                    }
                    let mut rd = SimReader::new(&raw, t2.io_seed ^ 11, t2.chunked, t2.eintr_pct, None);
                    push("serde_json::from_reader", sp, serde_json::from_reader::<_, T>(&mut rd).map_err(|e| e.to_string()), false, &mut results, &mut values);
                    let mut rd = SimReader::new(&raw, t2.io_seed ^ 12, t2.chunked, t2.eintr_pct, None);
                    push("Json::from_reader", sp, Json::from_reader::<_, T>(&mut rd).map_err(|e| e.to_string()), false, &mut results, &mut values);
                    let mut rd = SimReader::new(&raw, t2.io_seed ^ 13, t2.chunked, t2.eintr_pct, None);
                    push("JsonPretty::from_reader", sp, JsonPretty::from_reader::<_, T>(&mut rd).map_err(|e| e.to_string()), false, &mut results, &mut values);
                }
            }
            // pairwise equality of Ok values against the first Ok
            let mut unequal = None;
            let first = values.iter().position(|v| v.is_some());
            if let Some(f) = first {
                for (i, v) in values.iter().enumerate() {
                    if let Some(v) = v {
                        if Some(v) != values[f].as_ref() {
                            unequal = Some((f, i));
                            break;
                        }
                    }
                }
            }
            (results, unequal, io, file_io)
        })
    });
    match r {
        Ok((results, unequal, io, file_io)) => ChannelOutcome { results, unequal, panic: None, respelled: false, io, file_io },
        Err(p) => {
            crate::seams::read_disarm();
            ChannelOutcome { results: vec![], unequal: None, panic: Some(p), respelled: false, io: (0, 0, 0), file_io: (0, 0, 0) }
        }
    }
}

pub fn run_channel(t: &ChannelTrace, scratch: &Scratch) -> ChannelOutcome {
    use std::os::unix::fs::MetadataExt;
    let mut texts: Vec<(&'static str, String)> = vec![("as-written", t.text.clone())];
    let mut respelled = false;
    // (a document with a repeated member name has no re-spelling: a JSON tree cannot hold it)
    let dup_member = t.labels.iter().any(|l| l == "DUP-MEMBER");
    if let Some(rs) = if dup_member { None } else { respell(&t.text, t.ws, t.escape_seed, t.order_seed) } {
        if rs != t.text {
            texts.push(("re-spelled", rs));
            respelled = true;
        }
    }
    if let Some((a, b)) = &t.pad {
        let base = texts.last().map(|x| x.1.clone()).unwrap_or_default();
        texts.push(("padded", format!("{a}{base}{b}")));
        respelled = true;
    }
    let file = scratch.side().join("channel-doc.json");
    let dev = std::fs::metadata(scratch.side()).map(|m| m.dev()).unwrap_or(0);
    let mut o = match t.kind.as_str() {
        "metablock" => decode_all::<in_toto::models::Metablock>(t, texts, file, dev),
        "layout" => decode_all_ext::<in_toto::models::LayoutMetadata>(
            t,
            texts,
            file,
            dev,
            vec![("MetadataWrapper::from_bytes(.., Layout)", |b| match in_toto::models::MetadataWrapper::from_bytes(b, in_toto::models::MetadataType::Layout) {
                Ok(in_toto::models::MetadataWrapper::Layout(l)) => Ok(l),
                Ok(_) => Err("from_bytes(Layout) returned a link".to_string()),
                Err(e) => Err(e.to_string()),
            })],
        ),
        "link" => decode_all_ext::<in_toto::models::LinkMetadata>(
            t,
            texts,
            file,
            dev,
            vec![("MetadataWrapper::from_bytes(.., Link)", |b| match in_toto::models::MetadataWrapper::from_bytes(b, in_toto::models::MetadataType::Link) {
                Ok(in_toto::models::MetadataWrapper::Link(l)) => Ok(l),
                Ok(_) => Err("from_bytes(Link) returned a layout".to_string()),
                Err(e) => Err(e.to_string()),
            })],
        ),
        "wrapper" => decode_all_ext::<in_toto::models::MetadataWrapper>(
            t,
            texts,
            file,
            dev,
            vec![
                ("MetadataWrapper::try_from_bytes", |b| in_toto::models::MetadataWrapper::try_from_bytes(b).map_err(|e| e.to_string())),
                ("MetablockBuilder::from_raw_metadata", |b| in_toto::models::MetablockBuilder::from_raw_metadata(b).map(|x| x.build().metadata).map_err(|e| e.to_string())),
            ],
        ),
        "rule" => decode_all::<in_toto::models::rule::ArtifactRule>(t, texts, file, dev),
        "step" => decode_all::<in_toto::models::step::Step>(t, texts, file, dev),
        "inspection" => decode_all::<in_toto::models::inspection::Inspection>(t, texts, file, dev),
        "pubkey" => decode_all::<in_toto::crypto::PublicKey>(t, texts, file, dev),
        "signature" => decode_all::<in_toto::crypto::Signature>(t, texts, file, dev),
        "statement" => decode_all_ext::<in_toto::models::StatementWrapper>(
            t,
            texts,
            file,
            dev,
            vec![("StatementWrapper::try_from_value", |b| {
                let v: Value = serde_json::from_slice(b).map_err(|e| e.to_string())?;
                in_toto::models::StatementWrapper::try_from_value(v).map_err(|e| e.to_string())
            })],
        ),
        "predicate" => decode_all_ext::<in_toto::models::PredicateWrapper>(
            t,
            texts,
            file,
            dev,
            vec![("PredicateWrapper::try_from_value", |b| {
                let v: Value = serde_json::from_slice(b).map_err(|e| e.to_string())?;
                in_toto::models::PredicateWrapper::try_from_value(v).map_err(|e| e.to_string())
            })],
        ),
        _ => ChannelOutcome { results: vec![], unequal: None, panic: None, respelled: false, io: (0, 0, 0), file_io: (0, 0, 0) },
    };
    o.respelled = respelled;
    if let (Some((ks, step)), true) = (&t.linkdir, o.panic.is_none()) {
        let owner = crate::keys::KeySpec { kind: crate::keys::KeyKind::Ed, seed: 424_242 };
        let keyspecs = vec![owner, *ks];
        let layout = LayoutSpec {
            expires: "9999-01-01T00:00:00Z".into(),
            readme: String::new(),
            key_table: vec![1],
            steps: vec![StepSpec { name: step.clone(), threshold: 1, pubkeys: vec![1], exp_mat: vec![], exp_prod: vec![], cmd: vec![] }],
            inspect: vec![],
        };
        if let Some(ldoc) = sign_value(&layout_value(&layout, &keyspecs), &[0], &keyspecs) {
            let ltext = serde_json::to_string(&ldoc).unwrap_or_default();
            let fname = format!("{}.{}.link", step, crate::keys::key(*ks).prefix());
            for (sp, text) in &texts_for_linkdir(t) {
                scratch.reset_dirs();
                if std::fs::write(scratch.links().join(&fname), text.as_bytes()).is_err() {
                    continue;
                }
                if let Some((short, eintr)) = t.file_faults {
                    use std::os::unix::fs::MetadataExt;
                    let dev = std::fs::metadata(scratch.links()).map(|m| m.dev()).unwrap_or(0);
                    crate::seams::read_arm(dev, t.io_seed, short, eintr, 0);
                }
                let links = scratch.links();
                let work = scratch.work();
                let call = crate::exec::VerifyCall {
                    layout_bytes: ltext.as_bytes(),
                    caller_keys: vec![(crate::keys::key(owner).id.clone(), crate::keys::key(owner).public.clone())],
                    link_dir: &links,
                    cwd: &work,
                    clock: &[(1_790_000_000, 0)],
                    hash_seed: t.io_seed,
                    step_name: None,
                    same_thread: false,
                    mem_sigdup: vec![],
                };
                let r = crate::exec::verify(&call);
                if t.file_faults.is_some() {
                    crate::seams::read_disarm();
                }
                std::env::set_current_dir("/").ok();
                match r {
                    crate::exec::CallResult::Verdict(v) => {
                        if let Some(p) = v.panic {
                            o.panic = Some(p);
                        } else {
                            o.results.push(ChanResult { channel: "in_toto_verify: link file in the link directory".into(), spelling: sp, ok: v.ok, err: v.msg.chars().take(120).collect(), may_fail: false });
                        }
                    }
                    crate::exec::CallResult::NoLayout(_) => {}
                }
            }
        }
    }
    o
}

/// The same spellings `run_channel` decodes, for the link-directory channel.
fn texts_for_linkdir(t: &ChannelTrace) -> Vec<(&'static str, String)> {
    let mut texts: Vec<(&'static str, String)> = vec![("as-written", t.text.clone())];
    if let Some(rs) = respell(&t.text, t.ws, t.escape_seed, t.order_seed) {
        if rs != t.text {
            texts.push(("re-spelled", rs));
        }
    }
    if let Some((a, b)) = &t.pad {
        let base = texts.last().map(|x| x.1.clone()).unwrap_or_default();
        texts.push(("padded", format!("{a}{base}{b}")));
    }
    texts
}

pub fn judge_channel(t: &ChannelTrace, o: &ChannelOutcome) -> Vec<Finding> {
    let mut f = vec![];
    if let Some(p) = &o.panic {
        f.push(Finding { prop: "C14".into(), clause: "panic-in-decoder".into(), detail: p.clone() });
        return f;
    }
    // padding with characters that are not JSON white space makes another document: it is judged as
    // a group of its own (all channels must still agree on it), not against the unpadded spellings
    let json_ws = |s: &str| s.chars().all(|c| c == ' ' || c == '\n' || c == '\t' || c == '\r');
    let other_doc = t.pad.as_ref().map(|(a, b)| !json_ws(a) || !json_ws(b)).unwrap_or(false);
    let group_of = |r: &ChanResult| if r.spelling == "raw-bytes" { 2 } else if r.spelling == "padded" && other_doc { 1 } else { 0 };
    for g in 0..3 {
        let strict: Vec<&ChanResult> = o.results.iter().filter(|r| !r.may_fail && group_of(r) == g).collect();
        if strict.is_empty() {
            continue;
        }
        let n_ok = strict.iter().filter(|r| r.ok).count();
        if n_ok != 0 && n_ok != strict.len() {
            let good = strict.iter().find(|r| r.ok).unwrap();
            let bad = strict.iter().find(|r| !r.ok).unwrap();
            let same_spelling = strict.iter().any(|a| strict.iter().any(|b| a.spelling == b.spelling && a.ok != b.ok));
            let clause = if same_spelling { "channels-disagree" } else { "spellings-disagree" };
            let (good, bad) = if same_spelling {
                let a = strict.iter().find(|a| strict.iter().any(|b| a.spelling == b.spelling && a.ok && !b.ok)).unwrap_or(good);
                let b = strict.iter().find(|b| b.spelling == a.spelling && !b.ok).unwrap_or(bad);
                (a, b)
            } else {
                (good, bad)
            };
            f.push(Finding {
                prop: "C17".into(),
                clause: clause.into(),
                detail: format!("accepted by {} ({}) but rejected by {} ({}): {}", good.channel, good.spelling, bad.channel, bad.spelling, bad.err),
            });
            break;
        }
        // a hard stream error may only turn Ok into Err
        if strict.iter().all(|r| !r.ok) {
            if let Some(r) = o.results.iter().find(|r| r.may_fail && r.ok && group_of(r) == g) {
                f.push(Finding { prop: "C17".into(), clause: "accepted-only-under-stream-error".into(), detail: format!("{} accepted a document every other channel rejects", r.channel) });
            }
        }
    }
    if let Some((a, b)) = o.unequal {
        if group_of(&o.results[a]) == group_of(&o.results[b]) {
            f.push(Finding {
                prop: "C17".into(),
                clause: "values-differ".into(),
                detail: format!("{} ({}) and {} ({}) both accept but yield different values", o.results[a].channel, o.results[a].spelling, o.results[b].channel, o.results[b].spelling),
            });
        }
    }
    f
}

fn fold(t: &ChannelTrace, o: &ChannelOutcome, findings: Vec<Finding>, rec: &mut RunRecord, seed: u64, index: u64, prop: &str) -> Vec<Finding> {
    rec.evaluations += 1;
    let strict_ok = o.results.iter().filter(|r| !r.may_fail && r.ok).count();
    let mut d = Digest::new();
    d.update(&rec.log_digest.to_le_bytes());
    for r in &o.results {
        d.str(&r.channel);
        d.str(r.spelling);
        d.str(if r.ok { "ok" } else { "err" });
    }
    rec.log_digest = d.finish();
    let mut sh = Digest::new();
    sh.str(&t.kind);
    sh.str(&format!("{:?}", t.labels));
    sh.str(&format!("{}|{}|{}|{}", strict_ok, o.results.len(), o.respelled, t.text.len() / 64));
    sh.str(&format!("{:?}{:?}{}{:?}", t.escape_seed.is_some(), t.order_seed.is_some(), t.ws, t.fail_at.is_some()));
    rec.shapes.push((sh.finish(), o.respelled || t.chunked || t.eintr_pct > 0));
    rec.schedules.push(t.io_seed);
    for l in &t.labels {
        rec.fired.push(l.clone());
    }
    if o.respelled {
        rec.fired.push("RESPELL".into());
    }
    if o.io.0 > 0 {
        rec.fired.push("CHUNK".into());
    }
    if o.io.1 > 0 {
        rec.fired.push("EINTR".into());
    }
    if o.io.2 > 0 {
        rec.fired.push("EIO@offset".into());
    }
    if o.file_io.0 > 0 {
        rec.fired.push("R-SHORT".into());
    }
    if o.file_io.1 > 0 {
        rec.fired.push("R-EINTR".into());
    }
    rec.verdicts[if strict_ok > 0 { 0 } else { 1 }] += 1;
    if o.panic.is_some() {
        rec.verdicts[2] += 1;
    }
    if strict_ok == 0 {
        rec.probe("document rejected by every channel");
    } else {
        rec.probe("document accepted by every channel");
    }
    if rec.sample.is_none() {
        rec.sample = Some(json!({"seed": seed, "kind": t.kind, "labels": t.labels, "text_prefix": t.text.chars().take(160).collect::<String>(),
            "channels": o.results.iter().map(|r| format!("{} [{}] -> {}", r.channel, r.spelling, if r.ok { "Ok" } else { "Err" })).collect::<Vec<_>>() }));
    }
    let mut own = vec![];
    for x in findings {
        if x.prop == prop {
            if own.is_empty() {
                let lab = vec![t.kind.clone()];
                rec.own.push(Violation { seed, index, site: site_of(&x, &lab), finding: x.clone(), trace: Trace::Channel(t.clone()) });
            }
            own.push(x);
        } else {
            rec.cross.push(x);
        }
    }
    own
}

fn exec_and_fold(t: &ChannelTrace, scratch: &Scratch, rec: &mut RunRecord, seed: u64, index: u64, prop: &str) -> Vec<Finding> {
    crate::crash::write_current_trace(&Trace::Channel(t.clone()));
    let o = run_channel(t, scratch);
    let f = judge_channel(t, &o);
    fold(t, &o, f, rec, seed, index, prop)
}

// ---------------------------------------------------------------------------------------------
// documents
// ---------------------------------------------------------------------------------------------
fn rule_pool(r: &mut Rng, from: &str) -> Rule {
    let pat = r.pick(&["*", "foo", "src/*.c", "a?b", "[ab]x", "dir/"]).to_string();
    match r.below(10) {
        0 => vec!["CREATE".into(), pat],
        1 => vec!["DELETE".into(), pat],
        2 => vec!["MODIFY".into(), pat],
        3 => vec!["ALLOW".into(), pat],
        4 => vec!["REQUIRE".into(), pat],
        5 => vec!["DISALLOW".into(), pat],
        6 => vec!["MATCH".into(), pat, "WITH".into(), "PRODUCTS".into(), "FROM".into(), from.into()],
        7 => vec!["MATCH".into(), pat, "IN".into(), "src".into(), "WITH".into(), "MATERIALS".into(), "FROM".into(), from.into()],
        8 => vec!["MATCH".into(), pat, "WITH".into(), "PRODUCTS".into(), "IN".into(), "dst".into(), "FROM".into(), from.into()],
        _ => vec!["MATCH".into(), pat, "IN".into(), "src".into(), "WITH".into(), "MATERIALS".into(), "IN".into(), "dst".into(), "FROM".into(), from.into()],
    }
}

fn link_like(r: &mut Rng) -> (Value, Value, Value, Value, Value) {
    let mut arts = serde_json::Map::new();
    for i in 0..r.below(3) {
        arts.insert(format!("p{i}/f"), json!(gen::digest_of(r.below(40), r.chance(1, 4))));
    }
    let env = if r.chance(1, 2) { Value::Null } else { json!({"PATH": gen::text(r)}) };
    let by = json!({"return-value": r.below(3), "stdout": gen::text(r), "stderr": gen::text(r)});
    let cmd = json!((0..r.below(3)).map(|_| gen::text(r)).collect::<Vec<_>>());
    (Value::Object(arts.clone()), Value::Object(arts), env, by, cmd)
}

fn slsa01(r: &mut Rng) -> Value {
    let mut meta = json!({"buildInvocationId": gen::simple_name(r), "completeness": {"environment": true}});
    if r.chance(1, 2) {
        meta["buildStartedOn"] = json!("2026-01-01T00:00:00Z");
    }
    json!({
        "builder": {"id": "https://example.com/builder@v1"},
        "recipe": {"type": "https://example.com/recipe@v1", "definedInMaterial": 0, "entryPoint": gen::simple_name(r)},
        "metadata": meta,
        "materials": [{"uri": "git+https://example.com/x@main", "digest": {"sha1": "d6525c840a62b398424a78d792f457477135d0cf"}}],
    })
}

fn slsa02(r: &mut Rng) -> Value {
    let mut meta = json!({"buildInvocationId": gen::simple_name(r), "reproducible": false});
    if r.chance(1, 2) {
        meta["buildFinishedOn"] = json!("2026-01-01T00:00:00+01:00");
    }
    json!({
        "builder": {"id": "https://example.com/builder@v2"},
        "buildType": "https://example.com/buildtype@v1",
        "invocation": {"configSource": {"uri": "git+https://example.com/x", "digest": {"sha1": "abc"}, "entryPoint": "build.yaml"}, "parameters": gen::text(r)},
        "metadata": meta,
        "materials": [{"uri": "git+https://example.com/y"}],
    })
}

pub fn gen_document(r: &mut Rng, seed: u64) -> (String, Value) {
    let (k, v, _) = gen_document_ext(r, seed);
    (k, v)
}

pub fn gen_document_ext(r: &mut Rng, seed: u64) -> (String, Value, Option<(crate::keys::KeySpec, String)>) {
    let kind = r.weighted(&[20, 12, 10, 8, 14, 8, 6, 6, 4, 6, 6]);
    let opts = GenOpts { ed_only_pct: 80, delegation_pct: 0, max_steps: 3, ..GenOpts::default() };
    let (t, _) = gen::baseline(seed ^ 0xabcdef, &opts);
    let mut layout = t.root.layout.clone();
    for s in layout.steps.iter_mut() {
        if r.chance(2, 3) {
            let from = s.name.clone();
            for _ in 0..(1 + r.below(3)) {
                s.exp_mat.push(rule_pool(r, &from));
                s.exp_prod.push(rule_pool(r, &from));
            }
        }
    }
    if r.chance(1, 3) {
        layout.inspect.push(InspSpec {
            name: "insp".into(),
            exp_mat: vec![rule_pool(r, "x")],
            exp_prod: vec![],
            actor: ActorScript { id: "root#insp".into(), ops: vec![], stdout: vec![], stderr: vec![], exit: ExitSpec::Code(0) },
        });
    }
    let lv = layout_value(&layout, &t.keys);
    let link = t.root.files.iter().find_map(|f| if let Body::Link(l) = &f.body { Some(l.clone()) } else { None }).unwrap_or_default();
    let linkv = link_value(&link);
    let (k, v): (String, Value) = match kind {
        0 => {
            let is_link = !r.chance(2, 3);
            let signed = if is_link { linkv } else { lv };
            let doc = sign_value(&signed, &[0], &t.keys).unwrap_or(json!({"signatures": [], "signed": signed}));
            let step_ok = link.name.chars().all(|c| c.is_ascii_alphanumeric() || c == '_' || c == '-') && !link.name.is_empty();
            let ld = if is_link && step_ok && doc["signatures"].as_array().map(|a| a.len() == 1).unwrap_or(false) { Some((t.keys[0], link.name.clone())) } else { None };
            return ("metablock".into(), doc, ld);
        }
        1 => ("layout".into(), lv),
        2 => ("link".into(), linkv),
        3 => ("wrapper".into(), match r.below(5) {
            0 | 1 => lv,
            2 | 3 => linkv,
            _ => {
                // a document that carries the members of both kinds (neither schema refuses unknown members)
                let mut h = lv.clone();
                if let (Some(o), Some(l)) = (h.as_object_mut(), linkv.as_object()) {
                    for (k, v) in l {
                        if k != "_type" {
                            o.insert(k.clone(), v.clone());
                        }
                    }
                    o.insert("_type".into(), json!(*r.pick(&["link", "layout", "neither"])));
                }
                h
            }
        }),
        4 => ("rule".into(), json!(rule_pool(r, "some-step"))),
        5 => ("step".into(), lv["steps"][0].clone()),
        6 => {
            let i = json!({"_type": "inspection", "name": "i", "expected_materials": [rule_pool(r, "s")], "expected_products": [], "run": ["sh", "-c", gen::text(r)]});
            ("inspection".into(), i)
        }
        7 => ("pubkey".into(), crate::keys::key(t.keys[r.idx(t.keys.len())]).public_json()),
        8 => {
            let doc = sign_value(&linkv, &[0], &t.keys).unwrap_or(json!({"signatures": [{"keyid": "00", "sig": "00"}]}));
            ("signature".into(), doc["signatures"][0].clone())
        }
        9 => {
            let (m, p, env, by, cmd) = link_like(r);
            if r.chance(1, 2) {
                ("statement".into(), json!({"_type": "link", "name": gen::simple_name(r), "materials": m, "products": p, "env": env, "command": cmd, "byproducts": by}))
            } else {
                let (pt, pred) = match r.below(3) {
                    0 => ("https://in-toto.io/Link/v0.2", json!({"name": gen::simple_name(r), "materials": m, "env": env, "command": cmd, "byproducts": by})),
                    1 => ("https://slsa.dev/provenance/v0.1", slsa01(r)),
                    _ => ("https://slsa.dev/provenance/v0.2", slsa02(r)),
                };
                ("statement".into(), json!({"_type": "https://in-toto.io/Statement/v0.1", "subject": p, "predicateType": pt, "predicate": pred}))
            }
        }
        _ => {
            let (m, _p, env, by, cmd) = link_like(r);
            let pred = match r.below(3) {
                0 => json!({"name": gen::simple_name(r), "materials": m, "env": env, "command": cmd, "byproducts": by}),
                1 => slsa01(r),
                _ => slsa02(r),
            };
            ("predicate".into(), pred)
        }
    };
    (k, v, None)
}

pub fn run_c17(tier: Tier, seed: u64, index: u64, scratch: &Scratch, rec: &mut RunRecord) {
    let mut r = Rng::stream(seed, "channel");
    let (kind, mut doc, mut linkdir) = gen_document_ext(&mut r, seed);
    let mut labels = vec![];
    // some documents are damaged so that the reject side is exercised as well
    if r.chance(1, 5) {
        let mut ls = vec![];
        gen::leaves(&doc, "", &mut ls);
        if !ls.is_empty() {
            let (ptr, old) = r.pick(&ls).clone();
            let nv = match (&old, r.below(7)) {
                // a string of another length (key ids, digests and signatures have fixed lengths)
                (Value::String(sv), 0) => json!(format!("{sv}0")),
                (Value::String(sv), 1) if !sv.is_empty() => json!(sv[..sv.len() - sv.chars().last().unwrap().len_utf8()].to_string()),
                // another letter case (hex digits, keywords, scheme names)
                (Value::String(sv), 2) if sv.to_uppercase() != *sv => json!(sv.to_uppercase()),
                (Value::String(sv), 2 | 3) if sv.to_lowercase() != *sv => json!(sv.to_lowercase()),
                // one character that no validator should let through
                (Value::String(sv), 4) if !sv.is_empty() => {
                    let mut cs: Vec<char> = sv.chars().collect();
                    let i = r.idx(cs.len());
                    cs[i] = *r.pick(&['G', ' ', '+', 'g', '\u{e9}', '\u{0}']);
                    json!(cs.into_iter().collect::<String>())
                }
                _ => gen::mutate_leaf(&mut r, &old),
            };
            if let Some(slot) = doc.pointer_mut(&ptr) {
                *slot = nv;
                labels.push("DAMAGED-LEAF".into());
                linkdir = None;
            }
        }
    }
    let mut text = if r.chance(1, 2) { serde_json::to_string(&doc).unwrap() } else { serde_json::to_string_pretty(&doc).unwrap() };
    // one document in twelve repeats a member name inside one of its objects (what a JSON tree cannot hold:
    // the tree keeps one of the two, the typed text parsers see both)
    let mut dup_member = false;
    if kind != "statement" && kind != "predicate" && r.chance(1, 12) {
        let mut objs: Vec<String> = vec![String::new()];
        let mut cs = vec![];
        gen::containers(&doc, "", &mut cs);
        for p in cs {
            if doc.pointer(&p).map(|v| v.is_object()).unwrap_or(false) {
                objs.push(p);
            }
        }
        let target = r.pick(&objs).clone();
        if let Some(Value::Object(m)) = doc.pointer(&target) {
            if !m.is_empty() {
                let key = m.keys().nth(r.idx(m.len())).unwrap().clone();
                let old = m[&key].clone();
                let alt = match r.below(3) {
                    0 => old.clone(),
                    1 => gen::mutate_leaf(&mut r, &old),
                    _ => Value::Null,
                };
                let alt_first = r.chance(1, 2);
                let mut out = String::new();
                write_with_dup(&doc, "", &target, &key, &alt, alt_first, &mut out);
                text = out;
                dup_member = true;
                labels.push("DUP-MEMBER".into());
                linkdir = None;
            }
        }
    }
    let n_spell = if tier == Tier::Quick { 2 } else { 4 };
    for _ in 0..n_spell {
        let t = ChannelTrace {
            kind: kind.clone(),
            text: text.clone(),
            ws: if dup_member { 0 } else { r.below(4) as u8 },
            escape_seed: if !dup_member && r.chance(1, 2) { Some(r.next()) } else { None },
            order_seed: if !dup_member && r.chance(1, 2) { Some(r.next()) } else { None },
            io_seed: r.next(),
            chunked: r.chance(3, 4),
            eintr_pct: *r.pick(&[0u64, 0, 10, 40]),
            fail_at: if r.chance(1, 3) { Some(r.next() as usize % 100_000) } else { None },
            file_faults: if tier == Tier::Thorough && r.chance(1, 2) { Some((300, 100)) } else { None },
            labels: labels.clone(),
            raw_byte: if r.chance(1, 5) { Some((r.next() as usize % 100_000, *r.pick(&[0xffu8, 0x80, 0xc3, 0xe2, 0xf0, 0xc0, 0xed, 0x00, 0x7d, 0x22])) ) } else { None },
            linkdir: linkdir.clone(),
            pad: if linkdir.is_some() && r.chance(1, 3) {
                // enough leading blanks to push the document's text across an 8 KiB or 16 KiB boundary
                let n = *r.pick(&[8192usize, 16384]) - r.idx(text.len().max(1).min(600)) - 1;
                Some((" ".repeat(n), "\n".to_string()))
            } else if r.chance(1, 4) {
                let ws = [" ", "\n", "\t", "\r\n", "\u{c}", "\u{b}", "\u{a0}", "\u{85}", "\u{2028}", "\u{3000}", "\u{feff}", "\u{0}", "}", ",", "{}", "null", " x"];
                Some((r.pick(&ws).to_string(), r.pick(&ws).to_string()))
            } else {
                None
            },
        };
        let own = exec_and_fold(&t, scratch, rec, seed, index, "C17");
        if !own.is_empty() {
            break;
        }
    }
}

pub fn replay(prop: &str, t: &ChannelTrace, scratch: &Scratch, rec: &mut RunRecord) -> Vec<Finding> {
    exec_and_fold(t, scratch, rec, 0, 0, prop)
}

pub fn minimise(prop: &str, clause: &str, t: &ChannelTrace, scratch: &Scratch) -> (ChannelTrace, bool) {
    let still = |c: &ChannelTrace| {
        let o = run_channel(c, scratch);
        judge_channel(c, &o).iter().any(|f| f.prop == prop && f.clause == clause)
    };
    let mut cur = t.clone();
    let mut changed = false;
    for _ in 0..400 {
        let mut cands = vec![];
        for (a, b, c, d) in [(true, false, false, false), (false, true, false, false), (false, false, true, false), (false, false, false, true)] {
            let mut x = cur.clone();
            if a {
                x.escape_seed = None;
            }
            if b {
                x.order_seed = None;
            }
            if c {
                x.ws = 0;
            }
            if d {
                x.raw_byte = None;
                x.pad = None;
                x.chunked = false;
                x.eintr_pct = 0;
                x.fail_at = None;
                x.file_faults = None;
            }
            cands.push(x);
        }
        // structural shrinking of the document: drop members / elements
        if let Ok(v) = serde_json::from_str::<Value>(&cur.text) {
            let mut ls = vec![];
            gen::leaves(&v, "", &mut ls);
            for (ptr, _) in ls.iter().take(200) {
                let mut v2 = v.clone();
                if remove_ptr_pub(&mut v2, ptr) {
                    let mut x = cur.clone();
                    x.text = serde_json::to_string(&v2).unwrap();
                    cands.push(x);
                }
                // also try dropping the parent container's element
                if let Some(pos) = ptr.rfind('/') {
                    let parent = &ptr[..pos];
                    if !parent.is_empty() {
                        let mut v3 = v.clone();
                        if remove_ptr_pub(&mut v3, parent) {
                            let mut x = cur.clone();
                            x.text = serde_json::to_string(&v3).unwrap();
                            cands.push(x);
                        }
                    }
                }
            }
        }
        let mut progress = false;
        for c in cands {
            if c != cur && c.text.len() <= cur.text.len() && still(&c) {
                cur = c;
                changed = true;
                progress = true;
                break;
            }
        }
        if !progress {
            break;
        }
    }
    (cur, changed)
}

fn remove_ptr_pub(doc: &mut Value, ptr: &str) -> bool {
    let mut d = json!({"x": doc.clone()});
    let ok = apply_op(&mut json!({"signatures": [], "x": 0}), &DocOp::Remove { ptr: "/nope".into() }, &[]);
    let _ = ok;
    let full = format!("/x{}", ptr);
    let (parent, last) = match full.rfind('/') {
        Some(i) => (full[..i].to_string(), full[i + 1..].to_string()),
        None => return false,
    };
    let last = last.replace("~1", "/").replace("~0", "~");
    let removed = match d.pointer_mut(&parent) {
        Some(Value::Object(m)) => m.remove(&last).is_some(),
        Some(Value::Array(a)) => match last.parse::<usize>() {
            Ok(i) if i < a.len() => {
                a.remove(i);
                true
            }
            _ => false,
        },
        _ => false,
    };
    if removed {
        *doc = d["x"].take();
    }
    removed
}
