//! Generator for supply-chain worlds: an accepting baseline by construction, then faults.
//! Everything is drawn from labelled sub-streams of the run seed.

use crate::keys::{self, KeyKind, KeySpec};
use crate::prng::Rng;
use crate::refmodel;
use crate::supply::SupplyTrace;
use crate::world::*;
use serde_json::{json, Value};
use std::collections::BTreeMap;

pub const NOW_DEFAULT: i64 = 1_790_000_000; // 2026-09-21

pub fn sha256_hex(b: &[u8]) -> String {
    data_encoding::HEXLOWER.encode(ring::digest::digest(&ring::digest::SHA256, b).as_ref())
}
pub fn sha512_hex(b: &[u8]) -> String {
    data_encoding::HEXLOWER.encode(ring::digest::digest(&ring::digest::SHA512, b).as_ref())
}

pub fn digest_of(content: u64, both: bool) -> BTreeMap<String, String> {
    let c = format!("content-{content}");
    let mut m = BTreeMap::new();
    m.insert("sha256".to_string(), sha256_hex(c.as_bytes()));
    if both {
        m.insert("sha512".to_string(), sha512_hex(c.as_bytes()));
    }
    m
}

const PATHS: &[&str] = &[
    ".gitignore", "dist/.payload", "a", "b", "c", "foo", "bar", "README", "src/main.c", "src/lib.c", "src/util/x.c", "out/bin", "out/lib.so",
    "docs/index", "x/y/z", "pkg.tar", "a.b", "dir/a", "dir/b", "t-1", "u_2",
];
const STEP_NAMES: &[&str] = &["fetch", "build", "test", "pack", "sign", "lint", "s0", "s1", "s2", "s3", "x", "a-b", "c_d", "p9", "build.release", "test.unit", "pack.tar.gz"];
pub const TEXT_POOL: &[&str] = &[
    "", "a", "hello world", "line1\nline2", "back\\slash", "lit\\nnl", "quote\"q", "tab\there", "cr\rlf\n", "\u{0001}\u{001f}",
    "nul\u{0000}x", "üñí", "\u{1F600}", "\\", "\"", "\n", "\\\\n", "a\\", "{}", "[\"x\"]", "\\u0041", "\u{2028}", "\u{7f}",
];

/// Random Unicode scalar values with a bias to the awkward ones.
pub fn unicode_text(r: &mut Rng) -> String {
    let n = r.below(12) as usize;
    let mut s = String::new();
    for _ in 0..n {
        let c = match r.below(10) {
            0 => r.below(0x20) as u32,
            1 => *r.pick(&[0x22u32, 0x5c, 0x2f, 0x7f, 0x80, 0x9f, 0xa0, 0xad, 0x2028, 0x2029, 0xfeff, 0xfffd, 0xffff, 0xd7ff, 0xe000, 0x10000, 0x10ffff, 0x301, 0x200d, 0x6e]),
            2 | 3 => 0x20 + r.below(0x5f) as u32,
            4 => 0x80 + r.below(0x780) as u32,
            5 => 0x800 + r.below(0xd000) as u32,
            6 => 0x10000 + r.below(0x100000) as u32,
            _ => *r.pick(&[0x6eu32, 0x5c, 0x0a, 0x74, 0x75]),
        };
        if let Some(ch) = char::from_u32(c) {
            s.push(ch);
        }
    }
    s
}

pub fn text(r: &mut Rng) -> String {
    if r.chance(1, 4) {
        return unicode_text(r);
    }
    if r.chance(1, 5) {
        let a = *r.pick(TEXT_POOL);
        let b = *r.pick(TEXT_POOL);
        format!("{a}{b}")
    } else {
        r.pick(TEXT_POOL).to_string()
    }
}

/// Runs come in blocks of 128 consecutive seeds (8 consecutive runs of one worker at 16 workers); in a
/// third of the blocks every verification runs on the worker's long-lived verifier thread, so that
/// thread-local state of the library carries over from one run to the next.
pub fn same_thread_block(seed: u64) -> bool {
    (seed >> 7) % 3 == 0
}

pub fn simple_name(r: &mut Rng) -> String {
    let n = 1 + r.below(10) as usize;
    let cs = b"abcdefghijklmnopqrstuvwxyz0123456789_-";
    let mut s: String = (0..n).map(|_| cs[r.idx(cs.len())] as char).collect();
    // one name in ten has a dot in it ("build.release"), one in twenty two
    if r.chance(1, 10) {
        for _ in 0..1 + r.below(2) {
            let m = 1 + r.below(7) as usize;
            s.push('.');
            s.extend((0..m).map(|_| cs[r.idx(cs.len())] as char));
        }
    }
    s
}

#[derive(Clone, Debug)]
pub struct GenOpts {
    pub ed_only_pct: u64,
    pub allow_rsa: bool,
    pub max_steps: usize,
    pub delegation_pct: u64,
    pub max_depth: usize,
    pub reps: usize,
    pub inspections: bool,
    pub rich_text: bool,
}

impl Default for GenOpts {
    fn default() -> Self {
        GenOpts { ed_only_pct: 70, allow_rsa: true, max_steps: 4, delegation_pct: 15, max_depth: 1, reps: 1, inspections: false, rich_text: true }
    }
}

/// Book-keeping the fault applicators need.
#[derive(Clone, Debug, Default)]
pub struct Plan {
    pub owners: Vec<usize>,
    pub funcs: Vec<usize>,
    pub outsiders: Vec<usize>,
    pub now: i64,
}

fn new_key(keys: &mut Vec<KeySpec>, r: &mut Rng, ed_only: bool, allow_rsa: bool) -> usize {
    loop {
        let k = keys::draw_keys(r, 1, ed_only, allow_rsa)[0];
        if !keys.contains(&k) {
            keys.push(k);
            return keys.len() - 1;
        }
        if !ed_only && keys.len() > 6 {
            // RSA identities are few; fall back to a seeded kind
            let k = KeySpec { kind: KeyKind::Ed, seed: r.next() >> 16 };
            keys.push(k);
            return keys.len() - 1;
        }
    }
}

pub fn link_name(step: &str, keyspecs: &[KeySpec], k: usize) -> String {
    format!("{}.{}.link", step, keys::key(keyspecs[k]).prefix())
}

/// Build one level: `n_steps` steps in a pipeline whose first step consumes `first_mat` and whose
/// last step produces `last_prod` when given; otherwise artifacts are drawn freely.
#[allow(clippy::too_many_arguments)]
fn gen_level(
    r: &mut Rng,
    keys: &mut Vec<KeySpec>,
    signers_of_layout: Vec<usize>,
    funcs: &[usize],
    opts: &GenOpts,
    ed_only: bool,
    depth: usize,
    fixed: Option<(Artifacts, Artifacts)>,
    expires: String,
    level_id: &str,
    name_prefix: &str,
) -> LevelSpec {
    let n_steps = 1 + r.idx(opts.max_steps.max(1));
    let mut names: Vec<String> = vec![];
    while names.len() < n_steps {
        let n = if r.chance(3, 4) { format!("{}{}", name_prefix, r.pick(STEP_NAMES)) } else { format!("{}{}", name_prefix, simple_name(r)) };
        if !names.contains(&n) {
            names.push(n);
        }
    }
    let both_algs = r.chance(1, 6);
    // artifact flow
    let mut content_ctr = r.below(1000) * 100;
    let mut next_content = || {
        content_ctr += 1;
        content_ctr
    };
    let mut flows: Vec<(Artifacts, Artifacts)> = vec![];
    let mut cur: Artifacts = match &fixed {
        Some((m, _)) => m.clone(),
        None => {
            let mut a = Artifacts::new();
            if r.chance(1, 2) {
                for _ in 0..r.below(3) {
                    a.insert(r.pick(PATHS).to_string(), digest_of(next_content(), both_algs));
                }
            }
            a
        }
    };
    for si in 0..n_steps {
        let mats = cur.clone();
        let mut prods = cur.clone();
        if si == n_steps - 1 && fixed.is_some() {
            prods = fixed.as_ref().unwrap().1.clone();
        } else {
            for _ in 0..(1 + r.below(3)) {
                match r.below(4) {
                    0 | 1 => {
                        prods.insert(r.pick(PATHS).to_string(), digest_of(next_content(), both_algs));
                    }
                    2 => {
                        if let Some(k) = prods.keys().nth(r.idx(prods.len().max(1))).cloned() {
                            prods.insert(k, digest_of(next_content(), both_algs));
                        }
                    }
                    _ => {
                        if prods.len() > 1 {
                            if let Some(k) = prods.keys().nth(r.idx(prods.len())).cloned() {
                                prods.remove(&k);
                            }
                        }
                    }
                }
            }
        }
        flows.push((mats, prods.clone()));
        cur = prods;
    }
    let mut steps = vec![];
    let mut files = vec![];
    let mut key_table: Vec<usize> = vec![];
    for si in 0..n_steps {
        let threshold: u32 = match r.weighted(&[50, 28, 8, 14]) {
            0 => 1,
            1 => 2,
            2 => 3,
            _ => 0,
        };
        let need = threshold.max(1) as usize;
        let mut pool: Vec<usize> = funcs.to_vec();
        r.shuffle(&mut pool);
        while pool.len() < need {
            let k = new_key(keys, r, ed_only, opts.allow_rsa);
            pool.push(k);
        }
        let n_auth = (need + r.idx(3)).min(pool.len());
        let authorized: Vec<usize> = pool[..n_auth].to_vec();
        let n_sign = need + if r.chance(1, 4) { r.idx(n_auth - need + 1) } else { 0 };
        let signers: Vec<usize> = authorized[..n_sign].to_vec();
        for k in &authorized {
            if !key_table.contains(k) {
                key_table.push(*k);
            }
        }
        let exp_mat: Vec<Rule> = if si == 0 {
            if r.chance(1, 2) {
                vec![vec!["ALLOW".into(), "*".into()]]
            } else {
                vec![]
            }
        } else {
            let mut v = vec![
                vec!["MATCH".into(), "*".into(), "WITH".into(), "PRODUCTS".into(), "FROM".into(), names[si - 1].clone()],
                vec!["DISALLOW".into(), "*".into()],
            ];
            // a rule with source and destination prefixes that selects nothing (it keeps the verdict as it
            // is, and gives post-signing edits of prefixes something to work on)
            if Rng::stream(r.next(), "idle-rule").chance(1, 3) {
                v.insert(0, vec!["MATCH".into(), "no-such-file-*".into(), "IN".into(), "src".into(), "WITH".into(), "PRODUCTS".into(), "IN".into(), "out/dist".into(), "FROM".into(), names[si - 1].clone()]);
            }
            v
        };
        let exp_prod: Vec<Rule> = match r.below(3) {
            0 => vec![],
            1 => vec![vec!["ALLOW".into(), "*".into()]],
            _ => vec![vec!["CREATE".into(), "*".into()], vec!["ALLOW".into(), "*".into()]],
        };
        let cmd: Vec<String> = if r.chance(1, 2) { vec![] } else { vec!["make".into(), names[si].clone()] };
        steps.push(StepSpec { name: names[si].clone(), threshold, pubkeys: authorized.clone(), exp_mat, exp_prod, cmd: cmd.clone() });
        for k in signers {
            let delegate = depth < opts.max_depth && r.chance(opts.delegation_pct, 100);
            let fname = link_name(&names[si], keys, k);
            if delegate {
                let inner_funcs: Vec<usize> = (0..(1 + r.idx(2))).map(|_| new_key(keys, r, ed_only, opts.allow_rsa)).collect();
                let subdir = format!("{}.{}", names[si], keys::key(keys[k]).prefix());
                let mut inner = gen_level(
                    r,
                    keys,
                    vec![k],
                    &inner_funcs,
                    &GenOpts { max_steps: 2, ..opts.clone() },
                    ed_only,
                    depth + 1,
                    Some(flows[si].clone()),
                    expires.clone(),
                    &format!("{}/{}", level_id, subdir),
                    "",
                );
                inner.subdir = subdir;
                files.push(FileSpec { name: fname, body: Body::Layout(Box::new(inner)), doc: DocSpec::default() });
            } else {
                let (so, se) = if opts.rich_text && r.chance(1, 3) { (Some(text(r)), Some(text(r))) } else { (Some(String::new()), Some(String::new())) };
                let link = LinkSpec {
                    name: names[si].clone(),
                    materials: flows[si].0.clone(),
                    products: flows[si].1.clone(),
                    stdout: so,
                    stderr: se,
                    retval: Some(0),
                    other: BTreeMap::new(),
                    // what was run need not be what the layout expects (verification only warns)
                    command: if r.chance(1, 3) { vec!["sh".into(), "-c".into(), format!("make -j{} {}", r.below(9), names[si])] } else { cmd.clone() },
                    env: if r.chance(1, 5) { Some(BTreeMap::from([("PATH".to_string(), "/bin".to_string())])) } else { None },
                };
                files.push(FileSpec { name: fname, body: Body::Link(link), doc: DocSpec { signers: vec![k], ops: vec![], pretty: r.chance(1, 2) } });
            }
        }
    }
    let mut inspect = vec![];
    if opts.inspections && (depth == 0 || r.chance(1, 2)) {
        for ii in 0..(1 + r.idx(2)) {
            // unique across levels: every level's inspections dump <name>.link into the same directory
            let name = if depth == 0 { format!("insp{ii}") } else { format!("insp{ii}-d{depth}-{}", r.below(1_000_000)) };
            inspect.push(InspSpec {
                name: name.clone(),
                exp_mat: vec![],
                exp_prod: vec![],
                actor: ActorScript { id: format!("{}#{}", level_id, name), ops: vec![], stdout: vec![], stderr: vec![], exit: ExitSpec::Code(0) },
            });
        }
    }
    if r.chance(1, 3) {
        r.shuffle(&mut key_table);
    }
    LevelSpec {
        layout: LayoutSpec {
            expires,
            readme: if opts.rich_text { text(r) } else { String::new() },
            key_table,
            steps,
            inspect,
        },
        doc: DocSpec { signers: signers_of_layout, ops: vec![], pretty: r.chance(1, 2) },
        files,
        subdir: String::new(),
    }
}

pub fn baseline(seed: u64, opts: &GenOpts) -> (SupplyTrace, Plan) {
    let mut r = Rng::stream(seed, "world");
    let mut kr = Rng::stream(seed, "keys");
    let ed_only = r.chance(opts.ed_only_pct, 100);
    let n_owner = 1 + r.weighted(&[45, 40, 15]);
    let n_func = 1 + r.idx(5);
    let n_out = r.idx(3);
    let mut keys = keys::draw_keys(&mut kr, n_owner + n_func + n_out, ed_only, opts.allow_rsa);
    let owners: Vec<usize> = (0..n_owner).collect();
    let funcs: Vec<usize> = (n_owner..n_owner + n_func).collect();
    let outsiders: Vec<usize> = (n_owner + n_func..n_owner + n_func + n_out).collect();
    let mut cr = Rng::stream(seed, "clock");
    let now = match cr.weighted(&[70, 10, 10, 10]) {
        0 => NOW_DEFAULT + cr.range(-100_000_000, 100_000_000),
        1 => cr.range(86_400, 2_000_000_000),
        2 => 2_147_483_648 + cr.range(-10, 10),
        _ => cr.range(4_000_000_000, 200_000_000_000),
    };
    let delta = match cr.weighted(&[25, 25, 25, 25]) {
        0 => cr.range(0, 2),
        1 => cr.range(1, 3600),
        2 => cr.range(3600, 86_400 * 400),
        _ => cr.range(86_400 * 400, 86_400 * 36500),
    };
    let exp = (now + delta).min(253_402_300_799);
    let expires = refmodel::render_rfc3339(exp, None, "");
    let root = gen_level(&mut r, &mut keys, owners.clone(), &funcs, opts, ed_only, 0, None, expires, "root", "");
    let mut hr = Rng::stream(seed, "hash");
    let mut ar = Rng::stream(seed, "arrival");
    let t = SupplyTrace {
        keys,
        root,
        caller: owners.iter().map(|o| (*o, *o)).collect(),
        clock: vec![(now.min(exp), 0)],
        hash_seeds: (0..opts.reps.max(1)).map(|_| hr.next()).collect(),
        arrivals: (0..2).map(|_| ar.next()).collect(),
        file_faults: vec![],
        labels: vec![],
        work_files: vec![],
        caller_json_alias: vec![],
        step_name: None,
        rel_link_dir: false,
        read_faults: None,
        fixed_mtime: false,
        mtime_backwards: false,
        link_dir_style: 0,
        work_links: vec![],
        tz: None,
        same_thread: false,
        via_symlink: None,
        mem_sigdup: vec![],
        in_place: false,
        read_eio: None,
        alt_dir_on_odd_reps: false,
        concurrent: 0,
    };
    (t, Plan { owners, funcs, outsiders, now: now.min(exp) })
}

// ---------------------------------------------------------------------------------------------
// faults
// ---------------------------------------------------------------------------------------------
#[derive(Clone, Copy, Debug, PartialEq, Eq)]
pub enum F {
    LNoSig,
    LForged,
    LCorrupt,
    LEdit,
    LSigDup,
    SharedSub,
    OddFileName,
    Fifo,
    SubInspectionFails,
    DecoyDir,
    ExtraStranger,
    UnknownSchemeFunc,
    UnknownSchemeOwner,
    Misattributed,
    CallerJsonAlias,
    CallerEmpty,
    CallerSuperset,
    CallerDisjoint,
    CallerAlias,
    Drop,
    Outsider,
    WrongStep,
    OwnerAsFunc,
    SigSwap,
    SigFlip,
    LinkEdit,
    Relabel,
    Misfile,
    Unmet,
    Dissent,
    Skew,
    Jump,
    ATamper,
    ByteFlip,
    ByteTrunc,
    ByteOverwrite,
    Garbage,
    IsDir,
    Dangling,
    DupFile,
    WrongDir,
    SubWrongSigner,
    SubExpired,
    SubInner,
    SigDup,
    SigShuf,
    Unlisted,
    DupStep,
}

pub fn fname(f: F) -> &'static str {
    match f {
        F::LNoSig => "L-NOSIG",
        F::LForged => "L-FORGED",
        F::LCorrupt => "L-CORRUPT",
        F::LEdit => "L-EDIT",
        F::LSigDup => "L-SIGDUP",
        F::SharedSub => "SHARED-SUBLAYOUT",
        F::OddFileName => "ODD-FILENAME",
        F::Fifo => "FIFO",
        F::SubInspectionFails => "SUB-INSPECTION-FAILS",
        F::DecoyDir => "DECOY-DIR",
        F::ExtraStranger => "EXTRA-STRANGER",
        F::UnknownSchemeFunc => "UNKNOWN-SCHEME-FUNCTIONARY",
        F::UnknownSchemeOwner => "UNKNOWN-SCHEME-OWNER",
        F::Misattributed => "MISATTRIBUTED",
        F::CallerJsonAlias => "CALLER-JSON-ALIAS",
        F::CallerEmpty => "CALLER-EMPTY",
        F::CallerSuperset => "CALLER-SUPERSET",
        F::CallerDisjoint => "CALLER-DISJOINT",
        F::CallerAlias => "CALLER-ALIAS",
        F::Drop => "DROP",
        F::Outsider => "OUTSIDER",
        F::WrongStep => "WRONGSTEP",
        F::OwnerAsFunc => "OWNERASFUNC",
        F::SigSwap => "SIGSWAP",
        F::SigFlip => "SIGFLIP",
        F::LinkEdit => "EDIT",
        F::Relabel => "RELABEL",
        F::Misfile => "MISFILE",
        F::Unmet => "UNMET",
        F::Dissent => "DISSENT",
        F::Skew => "SKEW",
        F::Jump => "JUMP",
        F::ATamper => "A-TAMPER",
        F::ByteFlip => "FLIP",
        F::ByteTrunc => "TRUNC",
        F::ByteOverwrite => "OVERWRITE",
        F::Garbage => "GARBAGE",
        F::IsDir => "EISDIR",
        F::Dangling => "DANGLING",
        F::DupFile => "DUPFILE",
        F::WrongDir => "WRONGDIR",
        F::SubWrongSigner => "SUB-WRONGSIGNER",
        F::SubExpired => "SUB-EXPIRED",
        F::SubInner => "SUB-INNER",
        F::SigDup => "SIGDUP",
        F::SigShuf => "SIGSHUF",
        F::Unlisted => "UNLISTED",
        F::DupStep => "DUPLICATE-STEP-ENTRY",
    }
}

/// All leaves of a JSON value with their pointers.
pub fn leaves(v: &Value, prefix: &str, out: &mut Vec<(String, Value)>) {
    match v {
        Value::Object(m) => {
            if m.is_empty() {
                out.push((prefix.to_string(), v.clone()));
            }
            for (k, x) in m {
                let esc = k.replace('~', "~0").replace('/', "~1");
                leaves(x, &format!("{}/{}", prefix, esc), out);
            }
        }
        Value::Array(a) => {
            if a.is_empty() {
                out.push((prefix.to_string(), v.clone()));
            }
            for (i, x) in a.iter().enumerate() {
                leaves(x, &format!("{}/{}", prefix, i), out);
            }
        }
        _ => out.push((prefix.to_string(), v.clone())),
    }
}

/// Pointers to every object member and array element that is itself a container (not a leaf).
pub fn containers(v: &Value, prefix: &str, out: &mut Vec<String>) {
    match v {
        Value::Object(m) => {
            for (k, x) in m {
                let esc = k.replace('~', "~0").replace('/', "~1");
                let p = format!("{}/{}", prefix, esc);
                if x.is_object() || x.is_array() {
                    out.push(p.clone());
                }
                containers(x, &p, out);
            }
        }
        Value::Array(a) => {
            for (i, x) in a.iter().enumerate() {
                let p = format!("{}/{}", prefix, i);
                if x.is_object() || x.is_array() {
                    out.push(p.clone());
                }
                containers(x, &p, out);
            }
        }
        _ => {}
    }
}

/// A different value of the same JSON type (so that the typed parser usually still accepts it).
pub fn mutate_leaf(r: &mut Rng, old: &Value) -> Value {
    match old {
        Value::String(s) => {
            let mut cs: Vec<char> = s.chars().collect();
            let is_hex = !cs.is_empty() && cs.iter().all(|c| c.is_ascii_hexdigit());
            match r.below(3) {
                0 if !cs.is_empty() => {
                    let i = r.idx(cs.len());
                    let c = cs[i];
                    cs[i] = if is_hex {
                        if c == '0' {
                            '1'
                        } else {
                            '0'
                        }
                    } else if c.is_ascii_digit() {
                        char::from_digit((c.to_digit(10).unwrap() + 1) % 10, 10).unwrap()
                    } else if c == 'x' {
                        'y'
                    } else {
                        'x'
                    };
                }
                1 if !is_hex => cs.push('x'),
                _ => {
                    if cs.len() > 1 && !is_hex {
                        cs.pop();
                    } else if !cs.is_empty() {
                        let c = cs[0];
                        cs[0] = if c == '0' { '1' } else if is_hex { '0' } else if c == 'q' { 'r' } else { 'q' };
                    } else {
                        cs.push('x');
                    }
                }
            }
            Value::String(cs.into_iter().collect())
        }
        Value::Number(n) => {
            if let Some(u) = n.as_u64() {
                json!(if u > 0 && r.chance(1, 2) { u - 1 } else { u + 1 })
            } else if let Some(i) = n.as_i64() {
                json!(i + 1)
            } else {
                json!(1)
            }
        }
        Value::Bool(b) => json!(!b),
        Value::Null => json!({}),
        Value::Array(_) => json!(["x"]),
        Value::Object(_) => json!({"x": "y"}),
    }
}

fn level_paths(level: &mut LevelSpec, out: &mut Vec<*mut LevelSpec>) {
    out.push(level as *mut LevelSpec);
    for f in level.files.iter_mut() {
        if let Body::Layout(inner) = &mut f.body {
            level_paths(inner, out);
        }
    }
}

/// Pick the root level or (with probability) a delegated one.
fn pick_level<'a>(root: &'a mut LevelSpec, r: &mut Rng, prefer_sub: bool) -> (&'a mut LevelSpec, bool) {
    let mut ptrs = vec![];
    level_paths(root, &mut ptrs);
    let i = if ptrs.len() > 1 && (prefer_sub || r.chance(1, 4)) { 1 + r.idx(ptrs.len() - 1) } else { 0 };
    // SAFETY: the pointers come from one exclusive borrow of `root` and only one is dereferenced.
    (unsafe { &mut *ptrs[i] }, i > 0)
}

fn step_files(level: &LevelSpec, step: &str) -> Vec<usize> {
    level
        .files
        .iter()
        .enumerate()
        .filter(|(_, f)| f.name.starts_with(&format!("{}.", step)) && f.name.ends_with(".link"))
        .map(|(i, _)| i)
        .collect()
}

fn file_signers<'a>(f: &'a mut FileSpec) -> &'a mut DocSpec {
    match &mut f.body {
        Body::Link(_) => &mut f.doc,
        Body::Layout(inner) => &mut inner.doc,
    }
}

/// Apply one fault; returns false when it does not fit this world.
pub fn apply_fault(t: &mut SupplyTrace, plan: &Plan, f: F, r: &mut Rng, prefer_sub: bool) -> bool {
    let ed_only = t.keys.iter().all(|k| k.kind.is_ed());
    match f {
        F::LNoSig => {
            if t.root.doc.signers.is_empty() {
                return false;
            }
            let i = r.idx(t.root.doc.signers.len());
            t.root.doc.signers.remove(i);
        }
        F::LForged => {
            let x = new_key(&mut t.keys, r, ed_only, true);
            let n = t.root.doc.signers.len();
            if n == 0 {
                return false;
            }
            let at = r.idx(n);
            t.root.doc.signers.push(x);
            t.root.doc.ops.push(DocOp::SigValueFrom { at, from: n });
            t.root.doc.ops.push(DocOp::SigStrip(n));
        }
        F::LSigDup => {
            // one owner's valid signature listed twice while another trusted owner has not signed:
            // the number of signature entries still equals the number of trusted keys
            let n = t.root.doc.signers.len();
            if n < 2 {
                return false;
            }
            let gone = r.idx(n);
            t.root.doc.signers.remove(gone);
            let keep = r.idx(n - 1);
            let kk = t.root.doc.signers[keep];
            if !t.keys[kk].kind.is_ed() && r.chance(2, 3) {
                // a randomised scheme: the remaining owner signs twice, two different valid signatures
                t.root.doc.signers.push(kk);
            } else if r.chance(1, 3) {
                t.root.doc.ops.push(DocOp::SigDupCase { at: keep });
            } else if r.chance(1, 3) {
                // repeated in the caller's memory, not in the file
                t.mem_sigdup.push(keep);
            } else {
                t.root.doc.ops.push(DocOp::SigDup(keep));
            }
            if r.chance(1, 2) {
                t.root.doc.ops.push(DocOp::SigShuffle(r.next()));
            }
        }
        F::OddFileName => {
            // a stray copy of a stored document under a name that still matches <step>.????????.link
            // but whose eight wildcard characters are not eight bytes
            let paths = stored_paths(&t.root, &t.keys);
            if paths.is_empty() {
                return false;
            }
            let path = r.pick(&paths).clone();
            let base = path.rsplit('/').next().unwrap_or(&path).to_string();
            let step = match base.strip_suffix(".link").and_then(|b| b.rsplit_once('.')) {
                Some((s, _)) => s.to_string(),
                _ => return false,
            };
            let odd = [
                "\u{e9}\u{e9}\u{e9}\u{e9}\u{e9}\u{e9}\u{e9}a",
                "a\u{e9}\u{e9}\u{e9}\u{e9}\u{e9}\u{e9}\u{e9}",
                "\u{e9}\u{e9}\u{e9}\u{e9}\u{e9}\u{e9}\u{e9}\u{e9}",
                "\u{1F600}234567a",
                "1234567\u{20ac}",
                "abc.defg",
                "........",
                "ABCDEF01",
                " 2345678",
            ];
            let name = format!("{}.{}.link", step, r.pick(&odd));
            t.file_faults.push(FileFault { path, kind: FileFaultKind::DupAs(name) });
        }
        F::SharedSub => {
            // two functionaries of one step delegate with the same sub-layout content; only one of
            // them has the inner evidence in his own sub-directory
            let keyspecs = t.keys.clone();
            let (lv, _) = pick_level(&mut t.root, r, false);
            let mut done = false;
            for si in 0..lv.layout.steps.len() {
                let sname = lv.layout.steps[si].name.clone();
                let fs = step_files(lv, &sname);
                let sub = fs.iter().copied().find(|i| matches!(lv.files[*i].body, Body::Layout(_)));
                let other = fs.iter().copied().find(|i| Some(*i) != sub);
                if let (Some(a), Some(b)) = (sub, other) {
                    let kb = match file_signers(&mut lv.files[b]).signers.first() {
                        Some(k) => *k,
                        None => continue,
                    };
                    let mut clone = match &lv.files[a].body {
                        Body::Layout(inner) => inner.clone(),
                        _ => continue,
                    };
                    clone.doc.signers = vec![kb];
                    clone.doc.ops.clear();
                    // now and then the two filings are one and the same co-signed document
                    let cosigned = r.chance(1, 2);
                    let ka = match &lv.files[a].body {
                        Body::Layout(inner) => inner.doc.signers.first().copied(),
                        _ => None,
                    };
                    if let (true, Some(ka)) = (cosigned, ka) {
                        clone.doc.signers = vec![ka, kb];
                        if let Body::Layout(inner) = &mut lv.files[a].body {
                            inner.doc.signers = vec![ka, kb];
                            clone.doc.pretty = inner.doc.pretty;
                        }
                    }
                    clone.subdir = format!("{}.{}", sname, keys::key(keyspecs[kb]).prefix());
                    // the clone's inspections are other processes than the original's
                    for i in clone.layout.inspect.iter_mut() {
                        let (lvl, name) = match i.actor.id.split_once('#') {
                            Some(x) => x,
                            None => continue,
                        };
                        let parent = lvl.rsplit_once('/').map(|x| x.0).unwrap_or("root");
                        i.actor.id = format!("{}/{}#{}", parent, clone.subdir, name);
                    }
                    // the second delegation's own sub-directory stays empty / incomplete / dissents
                    match r.below(4) {
                        3 => {
                            // valid inner evidence that reports other products for the last inner step
                            let last = clone.layout.steps.last().map(|s| s.name.clone()).unwrap_or_default();
                            for f in clone.files.iter_mut() {
                                if f.name.starts_with(&format!("{}.", last)) {
                                    if let Body::Link(l) = &mut f.body {
                                        l.products.insert("dissent/inner".into(), digest_of(424_242, false));
                                    }
                                }
                            }
                        }
                        0 => clone.files.clear(),
                        1 => {
                            if !clone.files.is_empty() {
                                let i = r.idx(clone.files.len());
                                clone.files.remove(i);
                            }
                        }
                        _ => {
                            for f in clone.files.iter_mut() {
                                f.doc.ops.push(DocOp::SigFlip { at: 0, bit: 7 });
                            }
                        }
                    }
                    lv.files[b].body = Body::Layout(clone);
                    lv.layout.steps[si].threshold = fs.len() as u32;
                    done = true;
                    break;
                }
            }
            if !done {
                return false;
            }
        }
        F::CallerJsonAlias => {
            // the same key material passed twice, the second time as a key object deserialized from
            // JSON that carries another key's id in its "keyid" member
            if t.caller.is_empty() {
                return false;
            }
            let (_, m) = t.caller[r.idx(t.caller.len())];
            let other = new_key(&mut t.keys, r, ed_only, true);
            if t.caller.len() > 1 && r.chance(1, 2) {
                let j = t.caller.iter().position(|c| c.1 != m).unwrap_or(0);
                t.caller.remove(j);
            }
            t.caller.push((other, m));
            t.caller_json_alias.push(t.caller.len() - 1);
            // and the owner's signature once more, under the alias id
            if let Some(sp) = t.root.doc.signers.iter().position(|s| *s == m) {
                if r.chance(3, 4) {
                    t.root.doc.ops.push(DocOp::SigDupAs { at: sp, to: other });
                }
            }
        }
        F::Misattributed => {
            // a link filed under A's prefix that carries a worthless entry labelled A and a valid
            // signature by B, who is authorized for the same step and also files his own link
            let (lv, is_sub) = pick_level(&mut t.root, r, prefer_sub);
            if prefer_sub && !is_sub {
                return false;
            }
            if lv.layout.steps.is_empty() {
                return false;
            }
            let si = r.idx(lv.layout.steps.len());
            let sname = lv.layout.steps[si].name.clone();
            let fs: Vec<usize> = step_files(lv, &sname).into_iter().filter(|i| matches!(lv.files[*i].body, Body::Link(_))).collect();
            if fs.len() < 2 {
                return false;
            }
            let need = lv.layout.steps[si].threshold.max(1) as usize;
            // make the genuine count fall below the threshold: all but (need-1) files become misattributed copies
            let b_file = fs[0];
            let b = match lv.files[b_file].doc.signers.first() {
                Some(b) => *b,
                None => return false,
            };
            let n_bad = (fs.len() + 1).saturating_sub(need).max(1).min(fs.len() - 1);
            for fi in fs.iter().skip(1).take(n_bad) {
                let a = match lv.files[*fi].doc.signers.first() {
                    Some(a) => *a,
                    None => continue,
                };
                let order = r.chance(1, 2);
                lv.files[*fi].doc.signers = if order { vec![a, b] } else { vec![b, a] };
                lv.files[*fi].doc.ops.push(DocOp::SigFlip { at: if order { 0 } else { 1 }, bit: r.idx(256) });
            }
        }
        F::LCorrupt => {
            let n = t.root.doc.signers.len();
            if n == 0 {
                return false;
            }
            if r.chance(1, 3) {
                // characters that are no hex digits, in whole pairs
                let junk = r.pick(&["zz", "--xx", "  ", "ZZ", "g0", "\u{e9}"]).to_string();
                t.root.doc.ops.push(DocOp::SigJunk { at: r.idx(n), pos: r.idx(200), junk });
            } else {
                t.root.doc.ops.push(DocOp::SigFlip { at: r.idx(n), bit: r.idx(4096) });
            }
        }
        F::LEdit => {
            let v = layout_value(&t.root.layout, &t.keys);
            let mut ls = vec![];
            leaves(&v, "/signed", &mut ls);
            // bias towards the fields verification uses
            let hot: Vec<&(String, Value)> = ls
                .iter()
                .filter(|(p, _)| p.contains("threshold") || p.contains("pubkeys") || p.contains("expected_") || p.contains("expires") || p.contains("/name"))
                .collect();
            let (ptr, old) = if !hot.is_empty() && r.chance(2, 3) { (*r.pick(&hot)).clone() } else { r.pick(&ls).clone() };
            // an empty argument spliced into a command (expected_command of a step, run of an inspection)
            let cmds: Vec<String> = ls.iter().filter(|(p, _)| p.contains("/expected_command/") || p.contains("/run/")).map(|(p, _)| p[..p.rfind('/').unwrap()].to_string()).collect();
            if !cmds.is_empty() && r.chance(1, 8) {
                let arr = r.pick(&cmds).clone();
                t.root.doc.ops.push(DocOp::Insert { ptr: arr, index: r.idx(2), values: vec![json!("")] });
                t.labels.push(fname(f).to_string());
                return true;
            }
            // a MATCH rule with a source / destination prefix: the prefix spelled another way (a trailing
            // slash, "./" in front, "/." behind) is another rule: it selects and strips differently
            let prefixes: Vec<(String, String)> = ls
                .iter()
                .filter_map(|(p, val)| {
                    let (arr, idx) = p.rsplit_once('/')?;
                    let k: usize = idx.parse().ok()?;
                    let rel = arr.strip_prefix("/signed").unwrap_or(arr);
                    let a = v.pointer(rel)?.as_array()?;
                    if k >= 1 && a.first()?.as_str()? == "MATCH" && a.get(k - 1)?.as_str()? == "IN" {
                        Some((p.clone(), val.as_str()?.to_string()))
                    } else {
                        None
                    }
                })
                .collect();
            if !prefixes.is_empty() && r.chance(1, 6) {
                let (ptr, old) = r.pick(&prefixes).clone();
                let nv = match r.below(4) {
                    0 if old.ends_with('/') && old.len() > 1 => old[..old.len() - 1].to_string(),
                    0 | 1 => format!("{old}/"),
                    2 => format!("./{old}"),
                    _ => format!("{old}/."),
                };
                t.root.doc.ops.push(DocOp::Set { ptr, value: json!(nv) });
                t.labels.push(fname(f).to_string());
                return true;
            }
            // a string that holds a character with an escape spelling (TAB, LF, CR, quote, backslash, U+0001) or
            // such a spelling: the one swapped for the other is another string — a canonical writer that escapes
            // too little gives both the same bytes
            let escapable: Vec<(String, String)> = ls
                .iter()
                .filter_map(|(p, val)| {
                    let s = val.as_str()?;
                    if p.contains("/keyval/") || (crate::ceremony::escape_respellings(s).is_empty() && crate::ceremony::line_ending_respellings(s).is_empty()) {
                        None
                    } else {
                        Some((p.clone(), s.to_string()))
                    }
                })
                .collect();
            if !escapable.is_empty() && r.chance(1, 4) {
                let (ptr, old) = r.pick(&escapable).clone();
                let mut alts = crate::ceremony::escape_respellings(&old);
                // (line endings re-spelled count twice: a writer that normalises them is the likelier slip)
                alts.extend(crate::ceremony::line_ending_respellings(&old));
                alts.extend(crate::ceremony::line_ending_respellings(&old));
                t.root.doc.ops.push(DocOp::Set { ptr, value: json!(r.pick(&alts).clone()) });
                t.labels.push(fname(f).to_string());
                t.labels.push("ESCAPE-RESPELLING".into());
                return true;
            }
            // a MATCH rule: splice an empty source / destination prefix in (parses to another rule)
            let match_rules: Vec<String> = ls.iter().filter(|(p, v)| p.ends_with("/0") && v.as_str() == Some("MATCH")).map(|(p, _)| p[..p.len() - 2].to_string()).collect();
            if !match_rules.is_empty() && r.chance(1, 6) {
                let arr = r.pick(&match_rules).clone();
                let rel = arr.strip_prefix("/signed").unwrap_or(&arr).to_string();
                let n = v.pointer(&rel).and_then(|a| a.as_array()).map(|a| a.len()).unwrap_or(0);
                let idx = if n == 6 && r.chance(1, 2) { 4 } else { 2 };
                t.root.doc.ops.push(DocOp::Insert { ptr: arr, index: idx, values: vec![json!("IN"), json!(if r.chance(1, 2) { "" } else { "." })] });
                t.labels.push(fname(f).to_string());
                return true;
            }
            match r.below(8) {
                0 => t.root.doc.ops.push(DocOp::Remove { ptr }),
                1 => {
                    // add an element next to it
                    t.root.doc.ops.push(DocOp::Set { ptr: format!("{}x", ptr), value: old })
                }
                _ => {
                    let nv = if ptr.ends_with("/expires") {
                        // +/- seconds .. years, same notation
                        let (s, _) = refmodel::rfc3339_instant(old.as_str().unwrap_or("")).unwrap_or((0, 0));
                        let d = *r.pick(&[1i64, -1, 60, 86_400, 86_400 * 366, -86_400]);
                        json!(refmodel::render_rfc3339((s + d).clamp(0, 253_402_300_799), None, ""))
                    } else if old.is_string() && r.chance(1, 3) {
                        // a near-collision: another spelling that a normalising reader or writer might
                        // fold onto the original (trailing slash, "./", letter case, white space, ...)
                        let nc = crate::ceremony::near_collisions(old.as_str().unwrap_or(""));
                        // (where the string has a character with an escape spelling, or such a spelling, that swap
                        // half of the time: it is one alternative among thirty otherwise)
                        let esc = crate::ceremony::escape_respellings(old.as_str().unwrap_or(""));
                        if !esc.is_empty() && r.chance(1, 2) {
                            json!(r.pick(&esc).clone())
                        } else {
                            json!(r.pick(&nc).clone())
                        }
                    } else {
                        mutate_leaf(r, &old)
                    };
                    t.root.doc.ops.push(DocOp::Set { ptr, value: nv })
                }
            }
        }
        F::CallerEmpty => t.caller.clear(),
        F::CallerSuperset => {
            let x = if !plan.outsiders.is_empty() && r.chance(1, 2) { *r.pick(&plan.outsiders) } else { new_key(&mut t.keys, r, ed_only, true) };
            t.caller.push((x, x));
            if r.chance(1, 2) {
                r.shuffle(&mut t.caller);
            }
        }
        F::CallerDisjoint => {
            let x = new_key(&mut t.keys, r, ed_only, true);
            t.caller = vec![(x, x)];
        }
        F::CallerAlias => {
            if t.caller.is_empty() {
                return false;
            }
            let (_, m) = t.caller[r.idx(t.caller.len())];
            let other = new_key(&mut t.keys, r, ed_only, true);
            // the same key material filed under a second id; optionally drop a genuine owner so that
            // the number of entries equals the number of owners
            if t.caller.len() > 1 && r.chance(1, 2) {
                let j = t.caller.iter().position(|c| c.1 != m).unwrap_or(0);
                t.caller.remove(j);
            }
            t.caller.push((other, m));
        }
        F::Skew | F::Jump => {
            let (exp, _) = refmodel::rfc3339_instant(&t.root.layout.expires).unwrap_or((plan.now, 0));
            let d = *r.pick(&[0i64, 1, 2, 60, 3600, 86_400, 86_400 * 365 * 10]);
            let after = if d == 0 { (exp, 1 + r.below(999_999_999) as u32) } else { ((exp + d).min(253_402_300_799 + 86_400), 0) };
            if f == F::Skew {
                t.clock = vec![after];
            } else {
                // the call starts after expiry, later reads jump back before it
                t.clock = vec![after, (exp - 1, 0)];
            }
        }
        F::SubExpired => {
            let (lv, is_sub) = pick_level(&mut t.root, r, true);
            if !is_sub {
                return false;
            }
            let d = *r.pick(&[1i64, 60, 86_400, 86_400 * 365]);
            lv.layout.expires = refmodel::render_rfc3339((plan.now - d).max(0), None, "");
        }
        F::WrongDir => {
            let (lv, is_sub) = pick_level(&mut t.root, r, true);
            if !is_sub || lv.files.is_empty() {
                return false;
            }
            // the inner links are delivered somewhere else: to the parent directory itself, or to a
            // directory whose name is a near miss of the dedicated one (<step>.<key-id prefix>)
            let own = lv.subdir.clone();
            let near: Vec<String> = {
                let mut v = vec![String::new(), String::new()];
                if let Some(i) = own.rfind('.') {
                    let (step, prefix) = (&own[..i], &own[i + 1..]);
                    v.push(step.to_string());
                    v.push(prefix.to_string());
                    v.push(format!("{own}.d"));
                    v.push(own.to_ascii_uppercase());
                    if let Some(j) = step.rfind('.') {
                        // what replacing the "extension" of a dotted step name by the prefix gives
                        v.push(format!("{}.{}", &step[..j], prefix));
                        v.push(format!("{}.{}", &step[..j], prefix));
                        v.push(format!("{}.{}", &step[..j], prefix));
                    }
                }
                v
            };
            let pick = r.pick(&near).clone();
            if pick == own {
                return false;
            }
            lv.subdir = pick;
        }
        F::SubWrongSigner => {
            let (lv, is_sub) = pick_level(&mut t.root, r, true);
            if !is_sub {
                return false;
            }
            let x = new_key(&mut t.keys, r, ed_only, true);
            match r.below(3) {
                0 => lv.doc.signers = vec![x],
                1 => {
                    // forged: value by x under the delegating key's label
                    lv.doc.signers.push(x);
                    lv.doc.ops.push(DocOp::SigValueFrom { at: 0, from: 1 });
                    lv.doc.ops.push(DocOp::SigStrip(1));
                }
                _ => lv.doc.ops.push(DocOp::SigFlip { at: 0, bit: r.idx(512) }),
            }
        }
        F::SubInner => {
            // an inner counting fault inside a delegated level
            let inner = *r.pick(&[F::Drop, F::Outsider, F::SigSwap, F::SigFlip, F::LinkEdit, F::Unmet, F::Unlisted]);
            return apply_fault(t, plan, inner, r, true);
        }
        F::DupStep => {
            // the owner's layout lists one step name twice, with other functionaries the second time; nobody
            // of those has delivered anything: "every step" includes both entries
            let x = new_key(&mut t.keys, r, ed_only, true);
            let (lv, is_sub) = pick_level(&mut t.root, r, prefer_sub);
            if prefer_sub && !is_sub {
                return false;
            }
            if lv.layout.steps.is_empty() {
                return false;
            }
            let si = r.idx(lv.layout.steps.len());
            let mut dup = lv.layout.steps[si].clone();
            lv.layout.key_table.push(x);
            dup.pubkeys = vec![x];
            dup.threshold = r.below(2) as u32;
            if r.chance(1, 2) {
                // the twin comes first / last
                lv.layout.steps.insert(si, dup);
            } else {
                lv.layout.steps.push(dup);
            }
        }
        F::Drop | F::Outsider | F::WrongStep | F::OwnerAsFunc | F::SigSwap | F::SigFlip | F::LinkEdit | F::Relabel | F::Misfile | F::Unlisted => {
            let keys_snapshot_len = t.keys.len();
            let _ = keys_snapshot_len;
            // new keys must be drawn before borrowing the level
            let x = new_key(&mut t.keys, r, ed_only, true);
            let keyspecs = t.keys.clone();
            let owners = plan.owners.clone();
            let (lv, is_sub) = pick_level(&mut t.root, r, prefer_sub);
            if prefer_sub && !is_sub {
                return false;
            }
            if lv.layout.steps.is_empty() {
                return false;
            }
            let si = r.idx(lv.layout.steps.len());
            let step = lv.layout.steps[si].clone();
            let level_signers: Vec<usize> = lv.doc.signers.clone();
            let mut fs = step_files(lv, &step.name);
            let need = step.threshold.max(1) as usize;
            if fs.len() < need {
                return false;
            }
            r.shuffle(&mut fs);
            let n_bad = fs.len() - need + 1;
            let bad: Vec<usize> = fs[..n_bad].to_vec();
            // wrong-step candidate: in the key table, not authorized for this step
            let ws: Option<usize> = lv.layout.key_table.iter().copied().find(|k| !step.pubkeys.contains(k));
            let mut remove: Vec<usize> = vec![];
            for fi in bad {
                let fname_old = lv.files[fi].name.clone();
                let doc = file_signers(&mut lv.files[fi]);
                let orig = doc.signers.first().copied();
                match f {
                    F::Drop => remove.push(fi),
                    F::Outsider => {
                        doc.signers = vec![x];
                        if r.chance(2, 3) {
                            lv.files[fi].name = link_name(&step.name, &keyspecs, x);
                        }
                    }
                    F::WrongStep => {
                        let w = match ws {
                            Some(w) => w,
                            None => {
                                // make x a functionary of the layout that is trusted for no step
                                if !lv.layout.key_table.contains(&x) {
                                    lv.layout.key_table.push(x);
                                }
                                x
                            }
                        };
                        let doc = file_signers(&mut lv.files[fi]);
                        doc.signers = vec![w];
                        lv.files[fi].name = link_name(&step.name, &keyspecs, w);
                    }
                    F::Unlisted => {
                        // authorized for the step but absent from the layout's key table
                        if let Some(o) = orig {
                            lv.layout.key_table.retain(|k| *k != o);
                        }
                    }
                    F::OwnerAsFunc => {
                        // the key this level's layout is verified with: a caller key at the root, the
                        // delegating functionary's key inside a sub-layout
                        let pool = if is_sub && !level_signers.is_empty() { level_signers.clone() } else { owners.clone() };
                        let o = *r.pick(&pool);
                        doc.signers = vec![o];
                        lv.files[fi].name = link_name(&step.name, &keyspecs, o);
                        match r.below(3) {
                            0 => {}
                            1 => {
                                // defined in the key table, trusted for no step
                                if !lv.layout.key_table.contains(&o) {
                                    lv.layout.key_table.push(o);
                                }
                            }
                            _ => {
                                // listed for the step, but not defined in the layout's key table
                                if !lv.layout.steps[si].pubkeys.contains(&o) {
                                    lv.layout.steps[si].pubkeys.push(o);
                                }
                                lv.layout.key_table.retain(|k| *k != o);
                            }
                        }
                    }
                    F::SigSwap => {
                        doc.signers.push(x);
                        let n = doc.signers.len();
                        doc.ops.push(DocOp::SigValueFrom { at: 0, from: n - 1 });
                        doc.ops.push(DocOp::SigStrip(n - 1));
                    }
                    F::SigFlip => {
                        if r.chance(1, 4) {
                            let junk = r.pick(&["zz", "--xx", "  ", "ZZ", "g0"]).to_string();
                            doc.ops.push(DocOp::SigJunk { at: 0, pos: r.idx(200), junk });
                        } else {
                            doc.ops.push(DocOp::SigFlip { at: 0, bit: r.idx(4096) });
                        }
                    }
                    F::Relabel => {
                        if let Some(o) = orig {
                            doc.signers = vec![x];
                            doc.ops.push(DocOp::Relabel { at: 0, to: o });
                        }
                    }
                    F::LinkEdit => {
                        let ptr = match r.below(4) {
                            0 => "/signed/name".to_string(),
                            1 => "/signed/readme".to_string(),
                            2 => "/signed/byproducts/stdout".to_string(),
                            _ => "/signed/command".to_string(),
                        };
                        let val = match ptr.as_str() {
                            "/signed/command" => json!(["edited"]),
                            _ => json!("edited-after-signing"),
                        };
                        doc.ops.push(DocOp::Set { ptr, value: val });
                    }
                    F::Misfile => {
                        // stored under a prefix none of its signatures carries
                        let other = if r.chance(1, 2) { x } else { step.pubkeys.iter().copied().find(|k| Some(*k) != orig).unwrap_or(x) };
                        let nn = link_name(&step.name, &keyspecs, other);
                        if lv.files.iter().any(|g| g.name == nn) {
                            remove.push(fi);
                        } else {
                            lv.files[fi].name = nn;
                        }
                    }
                    _ => unreachable!(),
                }
                let _ = fname_old;
            }
            // delegated evidence keeps its inner links in the directory named after the file
            for f in lv.files.iter_mut() {
                if let Body::Layout(inner) = &mut f.body {
                    if !inner.subdir.is_empty() && r.chance(3, 4) {
                        inner.subdir = f.name.trim_end_matches(".link").to_string();
                    }
                }
            }
            remove.sort();
            for fi in remove.into_iter().rev() {
                lv.files.remove(fi);
            }
        }
        F::Unmet => {
            let (lv, is_sub) = pick_level(&mut t.root, r, prefer_sub);
            if prefer_sub && !is_sub {
                return false;
            }
            if lv.layout.steps.is_empty() {
                return false;
            }
            let si = r.idx(lv.layout.steps.len());
            let n = step_files(lv, &lv.layout.steps[si].name).len() as u32;
            lv.layout.steps[si].threshold = n + 1 + r.below(2) as u32;
        }
        F::Dissent => {
            let x = new_key(&mut t.keys, r, ed_only, true);
            let keyspecs = t.keys.clone();
            let (lv, _) = pick_level(&mut t.root, r, prefer_sub);
            if lv.layout.steps.is_empty() {
                return false;
            }
            let si = r.idx(lv.layout.steps.len());
            let sname = lv.layout.steps[si].name.clone();
            let fs = step_files(lv, &sname);
            let plain: Vec<usize> = fs.iter().copied().filter(|i| matches!(lv.files[*i].body, Body::Link(_))).collect();
            if plain.is_empty() {
                return false;
            }
            // make the step multi-party if it is not
            if lv.layout.steps[si].threshold < 2 {
                lv.layout.steps[si].threshold = 2;
            }
            let mut have = fs.len();
            let template = lv.files[plain[0]].clone();
            let mut extra_keys = vec![x];
            while have < lv.layout.steps[si].threshold as usize {
                let k = extra_keys.pop().unwrap_or(x);
                if !lv.layout.key_table.contains(&k) {
                    lv.layout.key_table.push(k);
                }
                if !lv.layout.steps[si].pubkeys.contains(&k) {
                    lv.layout.steps[si].pubkeys.push(k);
                }
                let mut nf = template.clone();
                nf.name = link_name(&sname, &keyspecs, k);
                nf.doc.signers = vec![k];
                lv.files.push(nf);
                have += 1;
            }
            let fs = step_files(lv, &sname);
            let plain: Vec<usize> = fs.iter().copied().filter(|i| matches!(lv.files[*i].body, Body::Link(_))).collect();
            if plain.len() < 2 && fs.len() < 2 {
                return false;
            }
            let victim = *r.pick(&plain);
            if let Body::Link(l) = &mut lv.files[victim].body {
                let on_products = r.chance(1, 2);
                let arts = if on_products { &mut l.products } else { &mut l.materials };
                match r.below(5) {
                    4 => {
                        // one more entry that carries no digest at all
                        arts.insert("dissent/empty-digests".into(), BTreeMap::new());
                    }
                    0 => {
                        arts.insert("dissent/extra".into(), digest_of(999_999, false));
                    }
                    1 if !arts.is_empty() => {
                        let k = arts.keys().nth(r.idx(arts.len())).unwrap().clone();
                        arts.remove(&k);
                    }
                    2 if !arts.is_empty() => {
                        let k = arts.keys().nth(r.idx(arts.len())).unwrap().clone();
                        let d = arts.get_mut(&k).unwrap();
                        if d.len() > 1 {
                            d.remove("sha512");
                        } else {
                            d.insert("sha512".into(), sha512_hex(b"dissent"));
                        }
                    }
                    3 if !arts.is_empty() && r.chance(1, 2) => {
                        // the same path in another spelling (a map keyed by paths must not equate them)
                        let k = arts.keys().nth(r.idx(arts.len())).unwrap().clone();
                        let v = arts.remove(&k).unwrap();
                        let nk = match r.below(4) {
                            0 => k.replacen('/', "//", 1),
                            1 => format!("./{k}"),
                            2 => format!("{k}/"),
                            _ => k.replacen('/', "/./", 1),
                        };
                        let nk = if nk == k { format!("{k}/.") } else { nk };
                        arts.insert(nk, v);
                    }
                    _ => {
                        if arts.is_empty() {
                            arts.insert("dissent/extra".into(), digest_of(999_998, false));
                        } else if r.chance(1, 2) {
                            // digests that differ in a way a sloppy comparison misses: every byte
                            // complemented, the same bit flipped in two bytes, a prefix, an extension
                            let k = arts.keys().nth(r.idx(arts.len())).unwrap().clone();
                            let d = arts.get_mut(&k).unwrap();
                            let h = d.get("sha256").cloned().unwrap_or_default();
                            let mut bytes = data_encoding::HEXLOWER.decode(h.as_bytes()).unwrap_or_default();
                            match r.below(4) {
                                0 => {
                                    for b in bytes.iter_mut() {
                                        *b = !*b;
                                    }
                                }
                                1 if bytes.len() >= 2 => {
                                    let (i, j) = (r.idx(bytes.len()), r.idx(bytes.len()));
                                    let j = if i == j { (j + 1) % bytes.len() } else { j };
                                    let bit = 1u8 << r.below(8);
                                    bytes[i] ^= bit;
                                    bytes[j] ^= bit;
                                }
                                2 => bytes.truncate(bytes.len() / 2),
                                _ => bytes.push(0),
                            }
                            d.insert("sha256".into(), data_encoding::HEXLOWER.encode(&bytes));
                        } else {
                            let k = arts.keys().nth(r.idx(arts.len())).unwrap().clone();
                            let d = arts.get_mut(&k).unwrap();
                            let h = d.get("sha256").cloned().unwrap_or_default();
                            let mut cs: Vec<char> = h.chars().collect();
                            if !cs.is_empty() {
                                let i = r.idx(cs.len());
                                cs[i] = if cs[i] == '0' { '1' } else { '0' };
                            }
                            d.insert("sha256".into(), cs.into_iter().collect());
                        }
                    }
                }
            }
        }
        F::ATamper => {
            let (lv, _) = pick_level(&mut t.root, r, prefer_sub);
            if lv.layout.steps.len() < 2 {
                return false;
            }
            let si = 1 + r.idx(lv.layout.steps.len() - 1);
            let sname = lv.layout.steps[si].name.clone();
            let fs = step_files(lv, &sname);
            let kind = r.below(3);
            let mut any = false;
            for fi in fs {
                if let Body::Link(l) = &mut lv.files[fi].body {
                    any = true;
                    match kind {
                        0 => {
                            l.materials.insert("injected".into(), digest_of(777_777, false));
                        }
                        1 if !l.materials.is_empty() => {
                            let k = l.materials.keys().next().unwrap().clone();
                            l.materials.insert(k, digest_of(888_888, false));
                        }
                        _ => {
                            l.materials.insert("renamed/x".into(), digest_of(666_666, false));
                        }
                    }
                }
            }
            if !any {
                return false;
            }
        }
        F::SigDup | F::SigShuf => {
            let x = new_key(&mut t.keys, r, ed_only, true);
            let (lv, _) = pick_level(&mut t.root, r, prefer_sub);
            if lv.files.is_empty() {
                return false;
            }
            let fi = r.idx(lv.files.len());
            let doc = file_signers(&mut lv.files[fi]);
            if f == F::SigDup {
                doc.ops.push(if r.chance(1, 3) { DocOp::SigDupCase { at: 0 } } else { DocOp::SigDup(0) });
            } else {
                doc.signers.push(x);
                doc.ops.push(DocOp::SigShuffle(r.next()));
            }
        }
        F::DecoyDir => {
            // the caller names the link directory through a symbolic link and ".."; the inner links of a
            // delegated level are delivered below the directory that a purely lexical reading of that
            // name points to, not below the real one
            if t.link_dir_style != 2 {
                return false;
            }
            let subs: Vec<usize> = t.root.files.iter().enumerate().filter(|(_, f)| matches!(&f.body, Body::Layout(l) if !l.files.is_empty() && !l.subdir.is_empty() && !l.subdir.starts_with('@'))).map(|(i, _)| i).collect();
            if subs.is_empty() {
                return false;
            }
            let fi = *r.pick(&subs);
            if let Body::Layout(inner) = &mut t.root.files[fi].body {
                inner.subdir = format!("@decoy/{}", inner.subdir);
            }
        }
        F::SubInspectionFails => {
            // an inspection of a delegated level is scripted to fail
            let (lv, is_sub) = pick_level(&mut t.root, r, true);
            if !is_sub || lv.layout.inspect.is_empty() {
                return false;
            }
            let i = r.idx(lv.layout.inspect.len());
            lv.layout.inspect[i].actor.exit = match r.below(3) {
                0 => ExitSpec::Code(1 + r.below(200) as i32),
                1 => ExitSpec::Signal(9),
                _ => ExitSpec::NotFound,
            };
            if r.chance(1, 4) && !lv.subdir.is_empty() {
                // the empty step sequence: the delegated level has inspections only
                lv.layout.steps.clear();
                lv.files.clear();
                t.labels.push("SUB-STEPLESS".into());
            }
        }
        F::ExtraStranger => {
            // next to the genuine evidence of a step: one more link for it, validly signed by somebody
            // who must not count (an outsider, or a functionary trusted for another step only), with
            // other artifacts, filed under his own prefix
            let x = new_key(&mut t.keys, r, ed_only, true);
            let keyspecs = t.keys.clone();
            let (lv, _) = pick_level(&mut t.root, r, prefer_sub);
            if lv.layout.steps.is_empty() {
                return false;
            }
            let si = r.idx(lv.layout.steps.len());
            let step = lv.layout.steps[si].clone();
            let fs: Vec<usize> = step_files(lv, &step.name).into_iter().filter(|i| matches!(lv.files[*i].body, Body::Link(_))).collect();
            if fs.is_empty() {
                return false;
            }
            let signer = match lv.layout.key_table.iter().copied().find(|k| !step.pubkeys.contains(k)) {
                Some(w) if r.chance(1, 2) => w,
                _ => x,
            };
            let mut nf = lv.files[fs[0]].clone();
            nf.name = link_name(&step.name, &keyspecs, signer);
            if lv.files.iter().any(|f| f.name == nf.name) {
                return false;
            }
            nf.doc = DocSpec { signers: vec![signer], ops: vec![], pretty: false };
            if let Body::Link(l) = &mut nf.body {
                l.products.insert("stranger/payload".into(), digest_of(666, false));
                if r.chance(1, 2) {
                    l.materials.insert("stranger/input".into(), digest_of(667, false));
                }
            }
            lv.files.push(nf);
        }
        F::UnknownSchemeFunc => {
            // a functionary whose key is declared with a scheme the library does not implement is
            // authorized for a step; the "evidence" under his prefix carries bytes nobody could have
            // made with that key
            let u = {
                let spec = crate::keys::KeySpec { kind: crate::keys::KeyKind::RsaUnknown, seed: 0 };
                match t.keys.iter().position(|k| *k == spec) {
                    Some(i) => i,
                    None => {
                        t.keys.push(spec);
                        t.keys.len() - 1
                    }
                }
            };
            let keyspecs = t.keys.clone();
            let (lv, is_sub) = pick_level(&mut t.root, r, prefer_sub);
            if prefer_sub && !is_sub {
                return false;
            }
            if lv.layout.steps.is_empty() {
                return false;
            }
            let si = r.idx(lv.layout.steps.len());
            let sname = lv.layout.steps[si].name.clone();
            let mut fs = step_files(lv, &sname);
            let need = lv.layout.steps[si].threshold.max(1) as usize;
            if fs.is_empty() || fs.len() < need {
                return false;
            }
            if !lv.layout.key_table.contains(&u) {
                lv.layout.key_table.push(u);
            }
            if !lv.layout.steps[si].pubkeys.contains(&u) {
                lv.layout.steps[si].pubkeys.push(u);
            }
            r.shuffle(&mut fs);
            // all but need-1 genuine links go; one file under the unknown-scheme key's prefix arrives
            let n_bad = fs.len() - need + 1;
            let victim = fs[0];
            let mut remove: Vec<usize> = fs[1..n_bad].to_vec();
            let doc = file_signers(&mut lv.files[victim]);
            if doc.signers.is_empty() {
                return false;
            }
            doc.ops.push(DocOp::Relabel { at: 0, to: u });
            if r.chance(1, 2) {
                doc.ops.push(DocOp::SigFlip { at: 0, bit: r.idx(64) });
            }
            lv.files[victim].name = link_name(&sname, &keyspecs, u);
            remove.sort();
            for fi in remove.into_iter().rev() {
                lv.files.remove(fi);
            }
        }
        F::UnknownSchemeOwner => {
            // the caller trusts (also) a key declared with an unimplemented scheme; the layout carries
            // a copy of another owner's signature under that key's id
            let spec = crate::keys::KeySpec { kind: crate::keys::KeyKind::RsaUnknown, seed: 0 };
            let u = match t.keys.iter().position(|k| *k == spec) {
                Some(i) => i,
                None => {
                    t.keys.push(spec);
                    t.keys.len() - 1
                }
            };
            if t.root.doc.signers.is_empty() {
                return false;
            }
            if r.chance(1, 2) && t.caller.len() > 1 {
                // replaces an owner who then no longer needs to have signed
                let j = r.idx(t.caller.len());
                let gone = t.caller[j].1;
                t.caller.remove(j);
                t.root.doc.signers.retain(|s| *s != gone);
                if t.root.doc.signers.is_empty() {
                    return false;
                }
            }
            t.caller.push((u, u));
            t.root.doc.ops.push(DocOp::SigDupAs { at: 0, to: u });
        }
        F::Fifo => {
            let paths = stored_paths(&t.root, &t.keys);
            if paths.is_empty() {
                return false;
            }
            t.file_faults.push(FileFault { path: r.pick(&paths).clone(), kind: FileFaultKind::Fifo });
        }
        F::ByteFlip | F::ByteTrunc | F::ByteOverwrite | F::Garbage | F::IsDir | F::Dangling | F::DupFile => {
            // byte positions inside documents that carry ECDSA / RSA-PSS signatures are not a function
            // of the seed (ring's entropy decides the signature bytes and, for ECDSA, their length)
            if matches!(f, F::ByteFlip | F::ByteTrunc | F::ByteOverwrite) && !ed_only {
                return false;
            }
            let mut paths = stored_paths(&t.root, &t.keys);
            if !matches!(f, F::IsDir | F::Dangling | F::DupFile) && r.chance(1, 4) {
                paths.push("@layout".into());
            }
            if paths.is_empty() {
                return false;
            }
            let path = r.pick(&paths).clone();
            let kind = match f {
                F::ByteFlip => FileFaultKind::Flip(r.next() as usize % (1 << 24)),
                F::ByteTrunc => FileFaultKind::Trunc(r.next() as usize % (1 << 24)),
                F::ByteOverwrite => {
                    let pool: [&[u8]; 6] = [b"\0", b"\xc3\xa9", b"\xf0\x9f\x98\x80", b"}", b"\"", b"\xff\xfe"];
                    let mut b = vec![];
                    for _ in 0..(1 + r.below(3)) {
                        b.extend_from_slice(*r.pick(&pool[..]));
                    }
                    FileFaultKind::Overwrite { pos: r.next() as usize % (1 << 24), bytes: b }
                }
                F::Garbage => {
                    let pool: [&[u8]; 6] = [b"", b"{", b"null", b"[]", b"\xff\xfe\x00", b"{\"signatures\":[],\"signed\":{}}"];
                    FileFaultKind::Garbage(r.pick(&pool[..]).to_vec())
                }
                F::IsDir => FileFaultKind::IsDir,
                F::Dangling => FileFaultKind::Dangling,
                _ => {
                    // same document under another key's prefix or another step's name
                    let base = path.rsplit('/').next().unwrap_or(&path).to_string();
                    // [<step>, <key-id prefix>, "link"] (the step name may have dots of its own)
                    let mut parts: Vec<&str> = match base.strip_suffix(".link").and_then(|b| b.rsplit_once('.')) {
                        Some((s, p)) => vec![s, p, "link"],
                        None => vec![],
                    };
                    let newname = if parts.len() == 3 && r.chance(1, 2) && !t.keys.is_empty() {
                        let k = r.idx(t.keys.len());
                        let pre = keys::key(t.keys[k]).prefix().to_string();
                        format!("{}.{}.link", parts[0], pre)
                    } else if parts.len() == 3 {
                        let other = t.root.layout.steps[r.idx(t.root.layout.steps.len().max(1)).min(t.root.layout.steps.len().saturating_sub(1))].name.clone();
                        parts[0] = &other;
                        format!("{}.{}.link", other, parts[1])
                    } else {
                        return false;
                    };
                    FileFaultKind::DupAs(newname)
                }
            };
            t.file_faults.push(FileFault { path, kind });
        }
    }
    t.labels.push(fname(f).to_string());
    true
}
