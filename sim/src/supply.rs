//! The supply-chain scenario: trace type, execution (materialise + verify N times under the seams).

use crate::exec::{self, CallResult, Scratch, Verdict, VerifyCall};
use crate::keys::{self, KeySpec};
use crate::world::*;
use serde::{Deserialize, Serialize};

#[derive(Clone, Debug, Serialize, Deserialize, PartialEq)]
pub struct SupplyTrace {
    pub keys: Vec<KeySpec>,
    pub root: LevelSpec,
    /// (key whose id labels the entry, key whose material is passed)
    pub caller: Vec<(usize, usize)>,
    /// verifier's wall clock: read #i returns clock[min(i, len-1)]
    pub clock: Vec<(i64, u32)>,
    /// one verification per entry, each in a fresh thread with these hash-map keys
    pub hash_seeds: Vec<u64>,
    /// arrival (file creation) order seed per repetition, cycled
    pub arrivals: Vec<u64>,
    pub file_faults: Vec<FileFault>,
    /// abstract fault labels the generator applied (OUTSIDER, DISSENT, SKEW, ...)
    pub labels: Vec<String>,
    /// files present in the verifier's working directory before verification (name, content)
    pub work_files: Vec<(String, String)>,
    /// indices into `caller` whose key object is obtained by deserializing the key's JSON with the
    /// label key's id written into its "keyid" member
    #[serde(default)]
    pub caller_json_alias: Vec<usize>,
    /// the name requested for the returned summary (None = the entry point's default, "")
    #[serde(default)]
    pub step_name: Option<String>,
    /// pass the link directory relative to the working directory ("../links") instead of absolute
    #[serde(default)]
    pub rel_link_dir: bool,
    /// read(2) faults (short reads, EINTR; per mille) while the verifier runs, on odd repetitions only:
    /// the verdict must not depend on how the bytes of the link files arrive
    #[serde(default)]
    pub read_faults: Option<(u64, u64)>,
    /// the metadata transport preserves time stamps: every delivered file has one fixed mtime
    #[serde(default)]
    pub fixed_mtime: bool,
    /// every delivery of a file carries an older time stamp than the delivery before it (a directory restored
    /// from an older archive, `touch -d`, a clock that was set back): time stamps are not an input of verification
    #[serde(default)]
    pub mtime_backwards: bool,
    /// how the caller names the link directory: 0 absolute, 1 relative ("../links"),
    /// 2 through a symbolic link and "..": <scratch>/stage/../links with stage -> real/stage, so that
    /// the kernel resolves it to <scratch>/real/links while <scratch>/links is an unrelated (decoy) directory
    #[serde(default)]
    pub link_dir_style: u8,
    /// symbolic links present in the verifier's working directory (name, target)
    #[serde(default)]
    pub work_links: Vec<(String, String)>,
    /// the verifier's TZ environment variable (a POSIX zone string; None = "UTC0")
    #[serde(default)]
    pub tz: Option<String>,
    /// the verifications run on the worker's long-lived verifier thread (thread-local state of the library
    /// carries over from one call to the next) instead of a fresh thread each
    #[serde(default)]
    pub same_thread: bool,
    /// the link directory was assembled from a content store: about half of its link files are symbolic
    /// links to regular files kept elsewhere (the seed picks which)
    #[serde(default)]
    pub via_symlink: Option<u64>,
    /// entries of the root layout's signature list repeated in memory after the caller parsed it (the
    /// layout object handed to the verifier did not come out of the parser as it is)
    #[serde(default)]
    pub mem_sigdup: Vec<usize>,
    /// the link directory is updated in place: files that exist already are rewritten (same inode), not
    /// deleted and created anew; what the world no longer has is removed
    #[serde(default)]
    pub in_place: bool,
    /// hard read errors (EIO, per mille of the read(2) calls on files of the scratch tree) while the verifier
    /// runs: the call may fail; it must not succeed on a world whose necessary conditions do not hold (an
    /// unreadable link file is not an absent one)
    #[serde(default)]
    pub read_eio: Option<u64>,
    /// odd repetitions deliver the same world to ANOTHER, fresh link directory (`links-b`) and verify it
    /// there: where the files lie (and what lay there before) must not matter
    #[serde(default)]
    pub alt_dir_on_odd_reps: bool,
    /// after each repetition's own verification the same call is made by this many caller threads at once
    /// (only for worlds without inspections): their verdicts join the repetition's
    #[serde(default)]
    pub concurrent: u8,
}

pub struct SupplyOutcome {
    pub no_layout: Option<String>,
    pub verdicts: Vec<Verdict>,
    pub truth: Materialised,
    /// actor events per repetition
    pub events: Vec<Vec<String>>,
    /// listing of work/ after each repetition
    pub work_after: Vec<Vec<String>>,
}

fn write_actor_scripts(level: &LevelSpec, side: &std::path::Path) {
    for i in &level.layout.inspect {
        let p = side.join("actors").join(format!("{}.json", i.actor.id.replace('/', "_")));
        std::fs::write(p, serde_json::to_vec(&i.actor).unwrap()).expect("write actor script");
    }
    for f in &level.files {
        if let Body::Layout(inner) = &f.body {
            write_actor_scripts(inner, side);
        }
    }
}

pub fn run_supply(t: &SupplyTrace, scratch: &Scratch) -> SupplyOutcome {
    let (stored, fired) = build(&t.root, &t.keys, &t.file_faults);
    let caller: Vec<(String, in_toto::crypto::PublicKey)> = t
        .caller
        .iter()
        .enumerate()
        .map(|(i, (l, m))| {
            let label = keys::key(t.keys[*l]).id.clone();
            let mut public = keys::key(t.keys[*m]).public.clone();
            if t.caller_json_alias.contains(&i) {
                let mut j = keys::key(t.keys[*m]).public_json();
                j["keyid"] = serde_json::Value::String(label.clone());
                if let Ok(k) = serde_json::from_value::<in_toto::crypto::PublicKey>(j) {
                    public = k;
                }
            }
            (label, public)
        })
        .collect();
    // the local time zone is configuration of the verifying host; absolute instants must not care
    std::env::set_var("TZ", t.tz.as_deref().unwrap_or("UTC0"));
    let mut verdicts = vec![];
    let mut events = vec![];
    let mut work_after = vec![];
    let mut truth = None;
    let mut no_layout = None;
    let mut read_fired: Vec<String> = vec![];
    for (rep, hs) in t.hash_seeds.iter().enumerate() {
        if t.in_place && t.link_dir_style != 2 {
            let keep: std::collections::BTreeSet<String> = stored.iter().filter(|s| s.special.is_none() && !s.path.starts_with('@')).map(|s| s.path.clone()).collect();
            scratch.reset_in_place(&keep);
        } else {
            scratch.reset_dirs();
        }
        write_actor_scripts(&t.root, &scratch.side());
        // the working directory's entries are created in an order drawn from the repetition's arrival
        // seed (directory enumeration order on tmpfs follows creation order)
        {
            let arrival = if t.arrivals.is_empty() { 0 } else { t.arrivals[rep % t.arrivals.len()] };
            let mut entries: Vec<(bool, &String, &String)> = t.work_files.iter().map(|(n, c)| (false, n, c)).collect();
            entries.extend(t.work_links.iter().map(|(n, target)| (true, n, target)));
            crate::prng::Rng::stream(arrival, "work-order").shuffle(&mut entries);
            for (is_link, n, c) in entries {
                let p = scratch.work().join(n);
                if let Some(d) = p.parent() {
                    let _ = std::fs::create_dir_all(d);
                }
                if is_link {
                    let _ = std::os::unix::fs::symlink(c, &p);
                } else {
                    std::fs::write(p, c).expect("work file");
                }
            }
        }
        let arrival = if t.arrivals.is_empty() { 0 } else { t.arrivals[rep % t.arrivals.len()] };
        // where the link files really are, and what the caller passes
        let (real_links, passed): (std::path::PathBuf, std::path::PathBuf) = if t.link_dir_style == 2 {
            let real = scratch.root.join("real");
            let _ = std::fs::remove_dir_all(&real);
            let _ = std::fs::remove_file(scratch.root.join("stage"));
            std::fs::create_dir_all(real.join("stage")).expect("real/stage");
            let _ = std::os::unix::fs::symlink("real/stage", scratch.root.join("stage"));
            (real.join("links"), scratch.root.join("stage/../links"))
        } else if t.alt_dir_on_odd_reps && rep % 2 == 1 {
            let alt = scratch.root.join("links-b");
            let _ = std::fs::remove_dir_all(&alt);
            (alt.clone(), alt)
        } else if t.rel_link_dir || t.link_dir_style == 1 {
            (scratch.links(), std::path::PathBuf::from("../links"))
        } else {
            (scratch.links(), scratch.links())
        };
        let decoy = scratch.links();
        let m = materialise(&stored, &real_links, arrival, fired.clone(), if t.mtime_backwards { 2 } else if t.fixed_mtime { 1 } else { 0 }, if t.link_dir_style == 2 { Some(decoy.as_path()) } else { None }, t.via_symlink).expect("materialise");
        let links = passed;
        let work = scratch.work();
        let (short, eintr) = match t.read_faults {
            Some(se) if rep % 2 == 1 => se,
            _ => (0, 0),
        };
        let eio = t.read_eio.unwrap_or(0);
        let armed = if short + eintr + eio > 0 {
            use std::os::unix::fs::MetadataExt;
            let dev = std::fs::metadata(&scratch.root).map(|m| m.dev()).unwrap_or(0);
            crate::seams::read_arm(dev, *hs, short, eintr, eio);
            true
        } else {
            false
        };
        let call = VerifyCall {
            layout_bytes: &m.root_layout_bytes,
            caller_keys: caller.clone(),
            link_dir: &links,
            cwd: &work,
            clock: &t.clock,
            hash_seed: *hs,
            step_name: t.step_name.clone(),
            same_thread: t.same_thread,
            mem_sigdup: t.mem_sigdup.clone(),
        };
        match exec::verify(&call) {
            CallResult::NoLayout(e) => {
                no_layout = Some(e);
            }
            CallResult::Verdict(v) => verdicts.push(v),
        }
        if t.concurrent > 0 && no_layout.is_none() {
            fn has_inspections(l: &LevelSpec) -> bool {
                !l.layout.inspect.is_empty() || l.files.iter().any(|f| matches!(&f.body, Body::Layout(i) if has_inspections(i)))
            }
            if !has_inspections(&t.root) {
                verdicts.extend(exec::verify_concurrently(&call, t.concurrent as usize));
            }
        }
        if armed {
            let (_calls, short, eintr, eio) = crate::seams::read_disarm();
            if eio > 0 {
                read_fired.push("R-EIO".to_string());
            }
            if short > 0 {
                read_fired.push("R-SHORT".to_string());
            }
            if eintr > 0 {
                read_fired.push("R-EINTR".to_string());
            }
        }
        std::env::set_current_dir("/").ok();
        events.push(scratch.events());
        work_after.push(exec::listing(&scratch.work()));
        if truth.is_none() {
            truth = Some(m);
        }
        if no_layout.is_some() {
            break;
        }
    }
    let mut truth = truth.expect("at least one repetition");
    read_fired.sort();
    read_fired.dedup();
    truth.fired.extend(read_fired);
    SupplyOutcome { no_layout, verdicts, truth, events, work_after }
}
