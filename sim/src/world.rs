//! The abstract supply-chain world (specs), its materialisation into bytes on tmpfs, and the
//! ground truth ("who validly signed what, after all faults") that the oracles judge by.
//!
//! Documents are written by the harness as JSON values (the wire format), signed through the
//! library's public signing API, then damaged at the value level (`DocOp`) and the byte level
//! (`FileFault`). Ground truth is recovered afterwards by `refold` (DESIGN §2.6).

use crate::keys::{self, KeySpec};
use in_toto::models::{Metablock, MetadataWrapper};
use serde::{Deserialize, Serialize};
use serde_json::{json, Map, Value};
use std::collections::{BTreeMap, BTreeSet};
use std::path::Path;

pub type Rule = Vec<String>;
/// path -> algorithm -> hex digest
pub type Artifacts = BTreeMap<String, BTreeMap<String, String>>;

#[derive(Clone, Debug, Serialize, Deserialize, PartialEq)]
pub struct StepSpec {
    pub name: String,
    pub threshold: u32,
    pub pubkeys: Vec<usize>,
    pub exp_mat: Vec<Rule>,
    pub exp_prod: Vec<Rule>,
    pub cmd: Vec<String>,
}

#[derive(Clone, Debug, Serialize, Deserialize, PartialEq)]
pub enum FsOp {
    Write { path: String, content: String },
    Append { path: String, content: String },
    Remove { path: String },
    Mkdir { path: String },
    /// rewrite the file in place with other bytes of the same length and restore its time stamps
    TamperKeepStat { path: String },
}

#[derive(Clone, Debug, Serialize, Deserialize, PartialEq)]
pub enum ExitSpec {
    Code(i32),
    Signal(i32),
    NotFound,
}

/// What a scripted child process (step or inspection command) does.
#[derive(Clone, Debug, Serialize, Deserialize, PartialEq)]
pub struct ActorScript {
    pub id: String,
    pub ops: Vec<FsOp>,
    pub stdout: Vec<u8>,
    pub stderr: Vec<u8>,
    pub exit: ExitSpec,
}

#[derive(Clone, Debug, Serialize, Deserialize, PartialEq)]
pub struct InspSpec {
    pub name: String,
    pub exp_mat: Vec<Rule>,
    pub exp_prod: Vec<Rule>,
    pub actor: ActorScript,
}

#[derive(Clone, Debug, Serialize, Deserialize, PartialEq)]
pub struct LayoutSpec {
    pub expires: String,
    pub readme: String,
    pub key_table: Vec<usize>,
    pub steps: Vec<StepSpec>,
    pub inspect: Vec<InspSpec>,
}

#[derive(Clone, Debug, Serialize, Deserialize, PartialEq, Default)]
pub struct LinkSpec {
    pub name: String,
    pub materials: Artifacts,
    pub products: Artifacts,
    pub stdout: Option<String>,
    pub stderr: Option<String>,
    pub retval: Option<i64>,
    pub other: BTreeMap<String, String>,
    pub command: Vec<String>,
    pub env: Option<BTreeMap<String, String>>,
}

#[derive(Clone, Debug, Serialize, Deserialize, PartialEq)]
pub enum DocOp {
    SigStrip(usize),
    SigDup(usize),
    SigShuffle(u64),
    /// signature #at gets the value of signature #from (made by another key): a forgery under #at's label
    SigValueFrom { at: usize, from: usize },
    /// signature #at is relabelled with key #to's id
    Relabel { at: usize, to: usize },
    /// one bit of the signature value of #at (bit index into the decoded bytes)
    SigFlip { at: usize, bit: usize },
    /// JSON-pointer edit of the document after signing
    Set { ptr: String, value: Value },
    Remove { ptr: String },
    /// insert elements into the array at `ptr`, before position `index`
    Insert { ptr: String, index: usize, values: Vec<Value> },
    /// rename an object member (value kept)
    Rename { ptr: String, to: String },
    /// signature #at is relabelled with a literal key id
    RelabelId { at: usize, id: String },
    /// a copy of signature #at is appended under key #to's id
    SigDupAs { at: usize, to: usize },
    /// characters that are not hex digits are spliced into the signature value of #at at an even offset
    SigJunk { at: usize, pos: usize, junk: String },
    /// a copy of signature #at is appended with its key id re-spelled in upper-case hex digits (another
    /// string, so at best the same key once more, never a second signer)
    SigDupCase { at: usize },
}

#[derive(Clone, Debug, Serialize, Deserialize, PartialEq, Default)]
pub struct DocSpec {
    pub signers: Vec<usize>,
    pub ops: Vec<DocOp>,
    pub pretty: bool,
}

#[derive(Clone, Debug, Serialize, Deserialize, PartialEq)]
pub enum Body {
    Link(LinkSpec),
    Layout(Box<LevelSpec>),
}

#[derive(Clone, Debug, Serialize, Deserialize, PartialEq)]
pub struct FileSpec {
    /// file name inside the level's directory, e.g. `build.1a2b3c4d.link`
    pub name: String,
    pub body: Body,
    /// signers / ops for a link body; for a layout body the inner level's `doc` is used
    pub doc: DocSpec,
}

#[derive(Clone, Debug, Serialize, Deserialize, PartialEq)]
pub struct LevelSpec {
    pub layout: LayoutSpec,
    pub doc: DocSpec,
    pub files: Vec<FileSpec>,
    /// for a delegated level: directory (relative to the parent's) that receives `files`;
    /// "" = the parent directory itself (WRONGDIR fault)
    pub subdir: String,
}

#[derive(Clone, Debug, Serialize, Deserialize, PartialEq)]
pub enum FileFaultKind {
    Drop,
    Trunc(usize),
    Flip(usize),
    Overwrite { pos: usize, bytes: Vec<u8> },
    Garbage(Vec<u8>),
    IsDir,
    Dangling,
    Fifo,
    /// copy under a second name (same directory)
    DupAs(String),
    /// move to another name (same directory)
    RenameTo(String),
    /// a new symbolic link at `path` (of the fault) pointing to `target`
    NewSymlink { target: String },
}

#[derive(Clone, Debug, Serialize, Deserialize, PartialEq)]
pub struct FileFault {
    /// path relative to the link directory root; "@layout" = the root layout document
    pub path: String,
    pub kind: FileFaultKind,
}

// ---------------------------------------------------------------------------------------------
// wire format
// ---------------------------------------------------------------------------------------------
pub fn actor_cmd(a: &ActorScript) -> Vec<String> {
    match a.exit {
        ExitSpec::NotFound => vec![format!("/nonexistent/scsim-notfound-{}", a.id)],
        _ => vec![self_exe(), "actor".into(), a.id.clone()],
    }
}

pub fn self_exe() -> String {
    std::env::current_exe().expect("current_exe").to_string_lossy().to_string()
}

pub fn layout_value(l: &LayoutSpec, keyspecs: &[KeySpec]) -> Value {
    let mut keys = Map::new();
    for k in &l.key_table {
        let key = keys::key(keyspecs[*k]);
        keys.insert(key.id.clone(), key.public_json());
    }
    let steps: Vec<Value> = l
        .steps
        .iter()
        .map(|s| {
            json!({
                "_type": "step",
                "threshold": s.threshold,
                "name": s.name,
                "expected_materials": s.exp_mat,
                "expected_products": s.exp_prod,
                "pubkeys": s.pubkeys.iter().map(|k| keys::key(keyspecs[*k]).id.clone()).collect::<Vec<_>>(),
                "expected_command": s.cmd,
            })
        })
        .collect();
    let inspect: Vec<Value> = l
        .inspect
        .iter()
        .map(|i| {
            json!({
                "_type": "inspection",
                "name": i.name,
                "expected_materials": i.exp_mat,
                "expected_products": i.exp_prod,
                "run": actor_cmd(&i.actor),
            })
        })
        .collect();
    json!({
        "_type": "layout",
        "expires": l.expires,
        "readme": l.readme,
        "keys": Value::Object(keys),
        "steps": steps,
        "inspect": inspect,
    })
}

pub fn link_value(l: &LinkSpec) -> Value {
    let mut by = Map::new();
    if let Some(r) = l.retval {
        by.insert("return-value".into(), json!(r));
    }
    if let Some(s) = &l.stderr {
        by.insert("stderr".into(), json!(s));
    }
    if let Some(s) = &l.stdout {
        by.insert("stdout".into(), json!(s));
    }
    for (k, v) in &l.other {
        by.insert(k.clone(), json!(v));
    }
    json!({
        "_type": "link",
        "name": l.name,
        "materials": l.materials,
        "products": l.products,
        "environment": l.env,
        "byproducts": Value::Object(by),
        "command": l.command,
    })
}

// ---------------------------------------------------------------------------------------------
// signing through the library, value-level faults
// ---------------------------------------------------------------------------------------------
/// Returns the signed document `{"signatures": [...], "signed": signed}` with one signature per
/// signer, in signer order, made by the library over what its parser reads from `signed`.
/// `None` when the library cannot parse `signed` at all (the world is then vacuous).
pub fn sign_value(signed: &Value, signers: &[usize], keyspecs: &[KeySpec]) -> Option<Value> {
    let bytes = serde_json::to_vec(signed).ok()?;
    // a document is signed once: when the same party signs the same content again later in this process
    // (the fault-free world first, then the same world with faults), the signature objects are the ones
    // made the first time — also under the randomised schemes, whose bytes ring's entropy would otherwise
    // make different each time. (A party listed twice signs twice: the n-th occurrence has its own entry.)
    thread_local! {
        static SIGNED_ONCE: std::cell::RefCell<BTreeMap<(Vec<u8>, KeySpec, usize), Value>> = std::cell::RefCell::new(BTreeMap::new());
    }
    let mut occ: BTreeMap<usize, usize> = BTreeMap::new();
    let slots: Vec<(Vec<u8>, KeySpec, usize)> = signers
        .iter()
        .map(|k| {
            let n = occ.entry(*k).or_default();
            *n += 1;
            (bytes.clone(), keys::normalize(keyspecs[*k]), *n - 1)
        })
        .collect();
    let cached: Option<Vec<Value>> = SIGNED_ONCE.with(|c| {
        let c = c.borrow();
        slots.iter().map(|s| c.get(s).cloned()).collect()
    });
    if let Some(sigs) = cached {
        return Some(json!({ "signatures": sigs, "signed": signed }));
    }
    let meta = MetadataWrapper::try_from_bytes(&bytes).ok()?;
    let ks: Vec<_> = signers.iter().map(|k| keys::key(keyspecs[*k])).collect();
    let privs: Vec<&in_toto::crypto::PrivateKey> = ks.iter().map(|k| &k.private).collect();
    let mb = Metablock::new(meta, &privs).ok()?;
    let sigs = serde_json::to_value(&mb.signatures).ok()?;
    if let Some(a) = sigs.as_array() {
        if a.len() == slots.len() {
            SIGNED_ONCE.with(|c| {
                let mut c = c.borrow_mut();
                if c.len() > 20_000 {
                    c.clear();
                }
                for (s, v) in slots.iter().zip(a.iter()) {
                    c.entry(s.clone()).or_insert_with(|| v.clone());
                }
            });
        }
    }
    Some(json!({ "signatures": sigs, "signed": signed }))
}

fn hex_flip(hexs: &str, bit: usize) -> String {
    let mut bytes = match data_encoding::HEXLOWER.decode(hexs.as_bytes()) {
        Ok(b) => b,
        Err(_) => return hexs.to_string(),
    };
    if bytes.is_empty() {
        return hexs.to_string();
    }
    let b = bit % (bytes.len() * 8);
    bytes[b / 8] ^= 1 << (b % 8);
    data_encoding::HEXLOWER.encode(&bytes)
}

fn remove_ptr(doc: &mut Value, ptr: &str) -> bool {
    let (parent, last) = match ptr.rfind('/') {
        Some(i) => (&ptr[..i], &ptr[i + 1..]),
        None => return false,
    };
    let last = last.replace("~1", "/").replace("~0", "~");
    match doc.pointer_mut(parent) {
        Some(Value::Object(m)) => m.remove(&last).is_some(),
        Some(Value::Array(a)) => match last.parse::<usize>() {
            Ok(i) if i < a.len() => {
                a.remove(i);
                true
            }
            _ => false,
        },
        _ => false,
    }
}

fn set_ptr(doc: &mut Value, ptr: &str, value: Value) -> bool {
    if let Some(slot) = doc.pointer_mut(ptr) {
        if *slot == value {
            return false;
        }
        *slot = value;
        return true;
    }
    // create a new member / append
    let (parent, last) = match ptr.rfind('/') {
        Some(i) => (&ptr[..i], &ptr[i + 1..]),
        None => return false,
    };
    let last = last.replace("~1", "/").replace("~0", "~");
    match doc.pointer_mut(parent) {
        Some(Value::Object(m)) => {
            m.insert(last, value);
            true
        }
        Some(Value::Array(a)) => {
            a.push(value);
            true
        }
        _ => false,
    }
}

/// Apply one value-level op; returns whether it changed anything ("fired").
pub fn apply_op(doc: &mut Value, op: &DocOp, keyspecs: &[KeySpec]) -> bool {
    let nsig = doc["signatures"].as_array().map(|a| a.len()).unwrap_or(0);
    match op {
        DocOp::SigStrip(i) => {
            if *i < nsig {
                doc["signatures"].as_array_mut().unwrap().remove(*i);
                true
            } else {
                false
            }
        }
        DocOp::SigDup(i) => {
            if *i < nsig {
                let s = doc["signatures"][*i].clone();
                doc["signatures"].as_array_mut().unwrap().push(s);
                true
            } else {
                false
            }
        }
        DocOp::SigShuffle(seed) => {
            if nsig < 2 {
                return false;
            }
            let before = doc["signatures"].clone();
            let mut r = crate::prng::Rng::new(*seed);
            r.shuffle(doc["signatures"].as_array_mut().unwrap());
            before != doc["signatures"]
        }
        DocOp::SigValueFrom { at, from } => {
            if *at < nsig && *from < nsig && at != from {
                let v = doc["signatures"][*from]["sig"].clone();
                if doc["signatures"][*at]["sig"] == v {
                    return false;
                }
                doc["signatures"][*at]["sig"] = v;
                true
            } else {
                false
            }
        }
        DocOp::Relabel { at, to } => {
            if *at < nsig && *to < keyspecs.len() {
                let id = keys::key(keyspecs[*to]).id.clone();
                if doc["signatures"][*at]["keyid"] == json!(id) {
                    return false;
                }
                doc["signatures"][*at]["keyid"] = json!(id);
                true
            } else {
                false
            }
        }
        DocOp::SigDupAs { at, to } => {
            if *at < nsig && *to < keyspecs.len() {
                let mut s = doc["signatures"][*at].clone();
                s["keyid"] = json!(keys::key(keyspecs[*to]).id.clone());
                doc["signatures"].as_array_mut().unwrap().push(s);
                true
            } else {
                false
            }
        }
        DocOp::SigDupCase { at } => {
            if *at < nsig {
                let mut s = doc["signatures"][*at].clone();
                let id = s["keyid"].as_str().unwrap_or("").to_string();
                let up = id.to_ascii_uppercase();
                if up == id {
                    return false;
                }
                s["keyid"] = json!(up);
                doc["signatures"].as_array_mut().unwrap().push(s);
                true
            } else {
                false
            }
        }
        DocOp::SigJunk { at, pos, junk } => {
            if *at < nsig && !junk.is_empty() {
                let h = doc["signatures"][*at]["sig"].as_str().unwrap_or("").to_string();
                let p = (pos % (h.len() / 2 + 1)) * 2;
                let p = p.min(h.len());
                let n = format!("{}{}{}", &h[..p], junk, &h[p..]);
                doc["signatures"][*at]["sig"] = json!(n);
                true
            } else {
                false
            }
        }
        DocOp::RelabelId { at, id } => {
            if *at < nsig && doc["signatures"][*at]["keyid"] != json!(id) {
                doc["signatures"][*at]["keyid"] = json!(id);
                true
            } else {
                false
            }
        }
        DocOp::SigFlip { at, bit } => {
            if *at < nsig {
                let h = doc["signatures"][*at]["sig"].as_str().unwrap_or("").to_string();
                let f = hex_flip(&h, *bit);
                if f == h {
                    return false;
                }
                doc["signatures"][*at]["sig"] = json!(f);
                true
            } else {
                false
            }
        }
        DocOp::Set { ptr, value } => set_ptr(doc, ptr, value.clone()),
        DocOp::Remove { ptr } => remove_ptr(doc, ptr),
        DocOp::Insert { ptr, index, values } => match doc.pointer_mut(ptr) {
            Some(Value::Array(a)) if *index <= a.len() && !values.is_empty() => {
                for (i, v) in values.iter().enumerate() {
                    a.insert(index + i, v.clone());
                }
                true
            }
            _ => false,
        },
        DocOp::Rename { ptr, to } => {
            let (parent, last) = match ptr.rfind('/') {
                Some(i) => (&ptr[..i], &ptr[i + 1..]),
                None => return false,
            };
            let last = last.replace("~1", "/").replace("~0", "~");
            match doc.pointer_mut(parent) {
                Some(Value::Object(m)) if !m.contains_key(to) => match m.remove(&last) {
                    Some(v) => {
                        m.insert(to.clone(), v);
                        true
                    }
                    None => false,
                },
                _ => false,
            }
        }
    }
}

pub fn to_text(doc: &Value, pretty: bool) -> String {
    if pretty {
        serde_json::to_string_pretty(doc).unwrap()
    } else {
        serde_json::to_string(doc).unwrap()
    }
}

// ---------------------------------------------------------------------------------------------
// ground truth
// ---------------------------------------------------------------------------------------------
#[derive(Clone, Debug, PartialEq, Eq, Serialize)]
pub enum Kind {
    Link,
    Layout,
    Garbage,
}

#[derive(Clone, Debug, Serialize)]
pub struct DocTruth {
    pub kind: Kind,
    /// the `signed` member as it finally reads (Null for garbage)
    pub signed: Value,
    /// key ids of all signature labels present, in order
    pub labels: Vec<String>,
    /// key ids K such that some signature labelled K was made by K over the content that the
    /// library's parser reads from the final bytes
    pub valid: BTreeSet<String>,
    /// whether the document text had to be signed at all
    pub unsignable: bool,
}

impl DocTruth {
    pub fn garbage() -> Self {
        DocTruth { kind: Kind::Garbage, signed: Value::Null, labels: vec![], valid: BTreeSet::new(), unsignable: false }
    }
}

/// Recover the abstract state of a document from its pre-fault value and its final bytes.
pub fn refold(state3: &Value, final_bytes: &[u8]) -> DocTruth {
    let text = match std::str::from_utf8(final_bytes) {
        Ok(t) => t,
        Err(_) => return DocTruth::garbage(),
    };
    let v: Value = match serde_json::from_str(text) {
        Ok(v) => v,
        Err(_) => return DocTruth::garbage(),
    };
    let typed: Metablock = match serde_json::from_str(text) {
        Ok(t) => t,
        Err(_) => return DocTruth::garbage(),
    };
    let kind = match typed.metadata {
        MetadataWrapper::Layout(_) => Kind::Layout,
        MetadataWrapper::Link(_) => Kind::Link,
    };
    let content_same = if v.get("signed") == state3.get("signed") {
        true
    } else {
        match serde_json::from_str::<Metablock>(&state3.to_string()) {
            Ok(orig) => orig.metadata == typed.metadata,
            Err(_) => false,
        }
    };
    let orig_pairs: BTreeSet<(String, String)> = state3["signatures"]
        .as_array()
        .map(|a| {
            a.iter()
                .map(|s| (s["keyid"].as_str().unwrap_or("").to_string(), s["sig"].as_str().unwrap_or("").to_string()))
                .collect()
        })
        .unwrap_or_default();
    let mut labels = vec![];
    let mut valid = BTreeSet::new();
    if let Some(a) = v["signatures"].as_array() {
        for s in a {
            let id = s["keyid"].as_str().unwrap_or("").to_string();
            let sv = s["sig"].as_str().unwrap_or("").to_string();
            if content_same && orig_pairs.contains(&(id.clone(), sv.clone())) {
                valid.insert(id.clone());
            } else if content_same && id.chars().any(|c| c.is_ascii_uppercase()) && orig_pairs.contains(&(id.to_ascii_lowercase(), sv)) {
                // the genuine signature under its key id re-spelled in upper-case hex: whether key ids are
                // compared with or without regard to letter case is left open; under the weakest reading
                // this is that key's valid signature
                valid.insert(id.to_ascii_lowercase());
            }
            labels.push(id);
        }
    }
    DocTruth { kind, signed: v.get("signed").cloned().unwrap_or(Value::Null), labels, valid, unsignable: false }
}

#[derive(Clone, Debug, Serialize)]
pub enum FileTruth {
    Doc(DocTruth),
    /// directory / dangling symlink / fifo carrying a link file's name
    Special(String),
}

#[derive(Clone, Debug, Default, Serialize)]
pub struct DirTruth {
    pub files: BTreeMap<String, FileTruth>,
    pub subdirs: BTreeMap<String, DirTruth>,
}

impl DirTruth {
    pub fn dir_mut(&mut self, rel: &str) -> &mut DirTruth {
        let mut d = self;
        for part in rel.split('/').filter(|p| !p.is_empty()) {
            d = d.subdirs.entry(part.to_string()).or_default();
        }
        d
    }
    pub fn count_files(&self) -> usize {
        self.files.len() + self.subdirs.values().map(|d| d.count_files()).sum::<usize>()
    }
}

/// One stored object before it is written.
#[derive(Clone, Debug)]
pub struct Stored {
    /// relative to the link dir root; "@layout" for the root layout
    pub path: String,
    pub state3: Value,
    pub bytes: Vec<u8>,
    pub special: Option<String>,
    pub unsignable: bool,
}

pub struct Materialised {
    pub root_layout_bytes: Vec<u8>,
    pub root_layout: DocTruth,
    pub dir: DirTruth,
    pub fired: Vec<String>,
    pub unsignable: bool,
}

fn produce(signed: &Value, doc: &DocSpec, keyspecs: &[KeySpec], fired: &mut Vec<String>) -> (Value, Vec<u8>, bool) {
    let (state3, unsignable) = match sign_value(signed, &doc.signers, keyspecs) {
        Some(v) => (v, false),
        None => (json!({"signatures": [], "signed": signed}), true),
    };
    let mut cur = state3.clone();
    for op in &doc.ops {
        if apply_op(&mut cur, op, keyspecs) {
            fired.push(op_name(op).to_string());
        }
    }
    let text = to_text(&cur, doc.pretty);
    (state3, text.into_bytes(), unsignable)
}

pub fn op_name(op: &DocOp) -> &'static str {
    match op {
        DocOp::SigStrip(_) => "SIGSTRIP",
        DocOp::SigDup(_) => "SIGDUP",
        DocOp::SigShuffle(_) => "SIGSHUF",
        DocOp::SigValueFrom { .. } => "SIGSWAP",
        DocOp::Relabel { .. } => "RELABEL",
        DocOp::RelabelId { .. } => "RELABEL",
        DocOp::SigDupAs { .. } => "SIGDUP-RELABEL",
        DocOp::SigDupCase { .. } => "SIGDUP-UPPERCASE",
        DocOp::SigJunk { .. } => "SIGJUNK",
        DocOp::SigFlip { .. } => "SIGFLIP",
        DocOp::Set { .. } => "EDIT",
        DocOp::Remove { .. } => "EDIT",
        DocOp::Insert { .. } => "EDIT",
        DocOp::Rename { .. } => "EDIT",
    }
}

fn collect(level: &LevelSpec, reldir: &str, keyspecs: &[KeySpec], out: &mut Vec<Stored>, fired: &mut Vec<String>) {
    for f in &level.files {
        let path = if reldir.is_empty() { f.name.clone() } else { format!("{}/{}", reldir, f.name) };
        match &f.body {
            Body::Link(l) => {
                let (state3, bytes, unsignable) = produce(&link_value(l), &f.doc, keyspecs, fired);
                out.push(Stored { path, state3, bytes, special: None, unsignable });
            }
            Body::Layout(inner) => {
                let (state3, bytes, unsignable) = produce(&layout_value(&inner.layout, keyspecs), &inner.doc, keyspecs, fired);
                out.push(Stored { path, state3, bytes, special: None, unsignable });
                let sub = if inner.subdir.is_empty() {
                    reldir.to_string()
                } else if reldir.is_empty() {
                    inner.subdir.clone()
                } else {
                    format!("{}/{}", reldir, inner.subdir)
                };
                collect(inner, &sub, keyspecs, out, fired);
            }
        }
    }
}

fn apply_file_fault(stored: &mut Vec<Stored>, ff: &FileFault, fired: &mut Vec<String>) {
    if let FileFaultKind::NewSymlink { target } = &ff.kind {
        if !stored.iter().any(|s| s.path == ff.path) {
            stored.push(Stored { path: ff.path.clone(), state3: Value::Null, bytes: vec![], special: Some(format!("symlink:{target}")), unsignable: false });
            fired.push("SYMLINK".into());
        }
        return;
    }
    let idx = match stored.iter().position(|s| s.path == ff.path) {
        Some(i) => i,
        None => return,
    };
    let dirpart = |p: &str| match p.rfind('/') {
        Some(i) => p[..=i].to_string(),
        None => String::new(),
    };
    match &ff.kind {
        FileFaultKind::Drop => {
            stored.remove(idx);
            fired.push("DROP".into());
        }
        FileFaultKind::Trunc(n) => {
            let s = &mut stored[idx];
            if !s.bytes.is_empty() {
                let keep = n % s.bytes.len();
                s.bytes.truncate(keep);
                fired.push("TRUNC".into());
            }
        }
        FileFaultKind::Flip(bit) => {
            let s = &mut stored[idx];
            if !s.bytes.is_empty() {
                let b = bit % (s.bytes.len() * 8);
                s.bytes[b / 8] ^= 1 << (b % 8);
                fired.push("FLIP".into());
            }
        }
        FileFaultKind::Overwrite { pos, bytes } => {
            let s = &mut stored[idx];
            if !s.bytes.is_empty() && !bytes.is_empty() {
                let p = pos % s.bytes.len();
                let mut changed = false;
                for (i, b) in bytes.iter().enumerate() {
                    if p + i < s.bytes.len() {
                        if s.bytes[p + i] != *b {
                            changed = true;
                        }
                        s.bytes[p + i] = *b;
                    }
                }
                if changed {
                    fired.push("OVERWRITE".into());
                }
            }
        }
        FileFaultKind::Garbage(g) => {
            stored[idx].bytes = g.clone();
            fired.push("GARBAGE".into());
        }
        FileFaultKind::IsDir => {
            stored[idx].special = Some("dir".into());
            fired.push("EISDIR".into());
        }
        FileFaultKind::Dangling => {
            stored[idx].special = Some("dangling".into());
            fired.push("DANGLING".into());
        }
        FileFaultKind::Fifo => {
            stored[idx].special = Some("fifo".into());
            fired.push("FIFO".into());
        }
        FileFaultKind::DupAs(name) => {
            if ff.path == "@layout" {
                return;
            }
            let mut c = stored[idx].clone();
            c.path = format!("{}{}", dirpart(&ff.path), name);
            if !stored.iter().any(|s| s.path == c.path) {
                stored.push(c);
                fired.push("DUPFILE".into());
            }
        }
        FileFaultKind::NewSymlink { .. } => {}
        FileFaultKind::RenameTo(name) => {
            if ff.path == "@layout" {
                return;
            }
            let np = format!("{}{}", dirpart(&ff.path), name);
            if !stored.iter().any(|s| s.path == np) {
                stored[idx].path = np;
                fired.push("MISFILE".into());
            }
        }
    }
}

/// Build all stored objects of a world (root layout first), apply byte/file-level faults.
pub fn build(root: &LevelSpec, keyspecs: &[KeySpec], file_faults: &[FileFault]) -> (Vec<Stored>, Vec<String>) {
    let mut fired = vec![];
    let mut out = vec![];
    let (state3, bytes, unsignable) = produce(&layout_value(&root.layout, keyspecs), &root.doc, keyspecs, &mut fired);
    out.push(Stored { path: "@layout".into(), state3, bytes, special: None, unsignable });
    collect(root, "", keyspecs, &mut out, &mut fired);
    // later duplicates of one path overwrite earlier ones (last writer wins), as on a real disk
    let mut seen = BTreeSet::new();
    let mut dedup: Vec<Stored> = vec![];
    for s in out.into_iter().rev() {
        if seen.insert(s.path.clone()) {
            dedup.push(s);
        }
    }
    dedup.reverse();
    let mut out = dedup;
    for ff in file_faults {
        apply_file_fault(&mut out, ff, &mut fired);
    }
    (out, fired)
}

/// Write the stored objects below `links_root` in the given arrival order and compute ground truth.
pub fn materialise(
    stored: &[Stored],
    links_root: &Path,
    arrival_seed: u64,
    fired: Vec<String>,
    // 0: time stamps as they come; 1: a transport that preserves time stamps (one fixed mtime); 2: every delivery
    // carries an older time stamp than the one before (restored from an older archive, `touch -d`, clock set back)
    fixed_mtime: u8,
    decoy_root: Option<&Path>,
    via_symlink: Option<u64>,
) -> std::io::Result<Materialised> {
    let mut order: Vec<usize> = (0..stored.len()).collect();
    crate::prng::Rng::stream(arrival_seed, "arrival").shuffle(&mut order);
    std::fs::create_dir_all(links_root)?;
    let mut dir = DirTruth::default();
    let mut root_layout = DocTruth::garbage();
    let mut root_layout_bytes = vec![];
    let mut unsignable = false;
    for i in order {
        let s = &stored[i];
        unsignable |= s.unsignable;
        if s.path == "@layout" {
            root_layout = refold(&s.state3, &s.bytes);
            root_layout_bytes = s.bytes.clone();
            continue;
        }
        // "@decoy/..." is delivered to an unrelated directory that is no part of the world under
        // verification (and of its ground truth)
        if let Some(rest) = s.path.strip_prefix("@decoy/") {
            if let Some(dr) = decoy_root {
                let full = dr.join(rest);
                if let Some(p) = full.parent() {
                    std::fs::create_dir_all(p)?;
                }
                std::fs::write(&full, &s.bytes)?;
            }
            continue;
        }
        let full = links_root.join(&s.path);
        if let Some(p) = full.parent() {
            std::fs::create_dir_all(p)?;
        }
        let (dpart, fname) = match s.path.rfind('/') {
            Some(i) => (&s.path[..i], &s.path[i + 1..]),
            None => ("", &s.path[..]),
        };
        let truth = match s.special.as_deref() {
            Some("dir") => {
                std::fs::create_dir_all(&full)?;
                FileTruth::Special("dir".into())
            }
            Some("dangling") => {
                std::os::unix::fs::symlink("/nonexistent/scsim-dangling", &full)?;
                FileTruth::Special("dangling".into())
            }
            Some(sp) if sp.starts_with("symlink:") => {
                let _ = std::os::unix::fs::symlink(&sp[8..], &full);
                FileTruth::Special("symlink".into())
            }
            Some("fifo") => {
                let c = std::ffi::CString::new(full.to_string_lossy().as_bytes()).unwrap();
                unsafe {
                    libc::mkfifo(c.as_ptr(), 0o600);
                }
                FileTruth::Special("fifo".into())
            }
            _ => {
                // a link directory assembled from a content store: some of its entries are symbolic links
                // to regular files kept elsewhere (legal; they are files of the directory like any other)
                let stored_elsewhere = match via_symlink {
                    Some(seed) => crate::prng::Rng::stream(seed, &s.path).chance(1, 2),
                    None => false,
                };
                if stored_elsewhere {
                    let store = links_root.parent().unwrap_or(links_root).join("linkstore");
                    std::fs::create_dir_all(&store)?;
                    let target = store.join(format!("obj-{}", i));
                    std::fs::write(&target, &s.bytes)?;
                    let _ = std::fs::remove_file(&full);
                    std::os::unix::fs::symlink(&target, &full)?;
                } else {
                    std::fs::write(&full, &s.bytes)?;
                }
                if fixed_mtime != 0 && !stored_elsewhere {
                    // a transport that preserves time stamps (rsync -t, cp -p, tar x): every delivery of a
                    // path carries the same mtime
                    if let Ok(c) = std::ffi::CString::new(full.to_string_lossy().as_bytes()) {
                        let sec = if fixed_mtime == 2 {
                            static OLDER: std::sync::atomic::AtomicI64 = std::sync::atomic::AtomicI64::new(1);
                            1_600_000_000 - 61 * OLDER.fetch_add(1, std::sync::atomic::Ordering::Relaxed)
                        } else {
                            1_600_000_000
                        };
                        let ts = [libc::timespec { tv_sec: sec, tv_nsec: 0 }, libc::timespec { tv_sec: sec, tv_nsec: 0 }];
                        unsafe {
                            libc::utimensat(libc::AT_FDCWD, c.as_ptr(), ts.as_ptr(), 0);
                        }
                    }
                }
                FileTruth::Doc(refold(&s.state3, &s.bytes))
            }
        };
        dir.dir_mut(dpart).files.insert(fname.to_string(), truth);
    }
    Ok(Materialised { root_layout_bytes, root_layout, dir, fired, unsignable })
}

/// All relative paths a world stores (for fault placement).
pub fn stored_paths(root: &LevelSpec, keyspecs: &[KeySpec]) -> Vec<String> {
    fn walk(level: &LevelSpec, reldir: &str, out: &mut Vec<String>) {
        for f in &level.files {
            let path = if reldir.is_empty() { f.name.clone() } else { format!("{}/{}", reldir, f.name) };
            out.push(path);
            if let Body::Layout(inner) = &f.body {
                let sub = if inner.subdir.is_empty() {
                    reldir.to_string()
                } else if reldir.is_empty() {
                    inner.subdir.clone()
                } else {
                    format!("{}/{}", reldir, inner.subdir)
                };
                walk(inner, &sub, out);
            }
        }
    }
    let _ = keyspecs;
    let mut out = vec![];
    walk(root, "", &mut out);
    out
}
