//! Seams at the libc boundary. Nothing in /repo is changed: the harness executable defines
//! `clock_gettime`, `getrandom` and `read`, which the statically linked `std` (and through it
//! chrono, HashMap's RandomState, File) resolves to these definitions.
//!
//! Everything here uses atomics only: the functions are called from arbitrary library code.

use std::sync::atomic::{AtomicBool, AtomicI64, AtomicU64, AtomicUsize, Ordering::SeqCst};

// ------------------------------------------------------------------------------------------
// clock
// ------------------------------------------------------------------------------------------
const SCRIPT_MAX: usize = 8;
static CLOCK_ARMED: AtomicBool = AtomicBool::new(false);
static CLOCK_LEN: AtomicUsize = AtomicUsize::new(0);
static CLOCK_READS: AtomicUsize = AtomicUsize::new(0);
#[allow(clippy::declare_interior_mutable_const)]
const ZI: AtomicI64 = AtomicI64::new(0);
static CLOCK_S: [AtomicI64; SCRIPT_MAX] = [ZI; SCRIPT_MAX];
static CLOCK_NS: [AtomicI64; SCRIPT_MAX] = [ZI; SCRIPT_MAX];

/// Arm the wall clock with a script of instants: read #i returns script[min(i, len-1)].
pub fn clock_arm(script: &[(i64, u32)]) {
    let n = script.len().min(SCRIPT_MAX).max(1);
    for i in 0..n {
        let (s, ns) = script.get(i).copied().unwrap_or((0, 0));
        CLOCK_S[i].store(s, SeqCst);
        CLOCK_NS[i].store(ns as i64, SeqCst);
    }
    CLOCK_LEN.store(n, SeqCst);
    CLOCK_READS.store(0, SeqCst);
    CLOCK_ARMED.store(true, SeqCst);
}
pub fn clock_disarm() -> usize {
    CLOCK_ARMED.store(false, SeqCst);
    CLOCK_READS.load(SeqCst)
}
pub fn clock_reads() -> usize {
    CLOCK_READS.load(SeqCst)
}

#[no_mangle]
pub unsafe extern "C" fn clock_gettime(clk: libc::clockid_t, ts: *mut libc::timespec) -> libc::c_int {
    if clk == libc::CLOCK_REALTIME && CLOCK_ARMED.load(SeqCst) && !ts.is_null() {
        let i = CLOCK_READS.fetch_add(1, SeqCst);
        let n = CLOCK_LEN.load(SeqCst);
        let j = if i < n { i } else { n - 1 };
        (*ts).tv_sec = CLOCK_S[j].load(SeqCst) as libc::time_t;
        (*ts).tv_nsec = CLOCK_NS[j].load(SeqCst) as libc::c_long;
        return 0;
    }
    libc::syscall(libc::SYS_clock_gettime, clk as libc::c_long, ts) as libc::c_int
}

// ------------------------------------------------------------------------------------------
// hash-map entropy
// ------------------------------------------------------------------------------------------
static HASH_STATE: AtomicU64 = AtomicU64::new(0x5c51_5c51_5c51_5c51);
static HASH_DRAWS: AtomicUsize = AtomicUsize::new(0);

fn mix(mut z: u64) -> u64 {
    z = (z ^ (z >> 30)).wrapping_mul(0xbf58476d1ce4e5b9);
    z = (z ^ (z >> 27)).wrapping_mul(0x94d049bb133111eb);
    z ^ (z >> 31)
}

/// Every thread started after this call that creates a `RandomState` gets keys derived from `seed`.
pub fn hash_seed(seed: u64) {
    HASH_STATE.store(mix(seed ^ 0xa5a5_1234_dead_beef), SeqCst);
    HASH_DRAWS.store(0, SeqCst);
}
pub fn hash_draws() -> usize {
    HASH_DRAWS.load(SeqCst)
}

#[no_mangle]
pub unsafe extern "C" fn getrandom(buf: *mut libc::c_void, len: libc::size_t, _flags: libc::c_uint) -> libc::ssize_t {
    HASH_DRAWS.fetch_add(1, SeqCst);
    let p = buf as *mut u8;
    let mut i = 0;
    while i < len {
        let s = HASH_STATE.fetch_add(0x9e3779b97f4a7c15, SeqCst).wrapping_add(0x9e3779b97f4a7c15);
        let x = mix(s).to_le_bytes();
        for b in x {
            if i < len {
                *p.add(i) = b;
                i += 1;
            }
        }
    }
    len as libc::ssize_t
}

// ------------------------------------------------------------------------------------------
// read(2) on scratch files
// ------------------------------------------------------------------------------------------
static READ_ARMED: AtomicBool = AtomicBool::new(false);
static READ_DEV: AtomicU64 = AtomicU64::new(0);
static READ_STATE: AtomicU64 = AtomicU64::new(0);
/// per-mille rates
static READ_SHORT: AtomicU64 = AtomicU64::new(0);
static READ_EINTR: AtomicU64 = AtomicU64::new(0);
static READ_EIO: AtomicU64 = AtomicU64::new(0);
pub static READ_CALLS: AtomicUsize = AtomicUsize::new(0);
pub static READ_FIRED_SHORT: AtomicUsize = AtomicUsize::new(0);
pub static READ_FIRED_EINTR: AtomicUsize = AtomicUsize::new(0);
pub static READ_FIRED_EIO: AtomicUsize = AtomicUsize::new(0);

/// Arm read-fault injection for regular files on device `dev` (st_dev of the scratch tmpfs).
pub fn read_arm(dev: u64, seed: u64, short_pm: u64, eintr_pm: u64, eio_pm: u64) {
    READ_DEV.store(dev, SeqCst);
    READ_STATE.store(mix(seed ^ 0x1357_9bdf_0246_8ace), SeqCst);
    READ_SHORT.store(short_pm, SeqCst);
    READ_EINTR.store(eintr_pm, SeqCst);
    READ_EIO.store(eio_pm, SeqCst);
    READ_CALLS.store(0, SeqCst);
    READ_FIRED_SHORT.store(0, SeqCst);
    READ_FIRED_EINTR.store(0, SeqCst);
    READ_FIRED_EIO.store(0, SeqCst);
    READ_ARMED.store(true, SeqCst);
}
pub fn read_disarm() -> (usize, usize, usize, usize) {
    READ_ARMED.store(false, SeqCst);
    (
        READ_CALLS.load(SeqCst),
        READ_FIRED_SHORT.load(SeqCst),
        READ_FIRED_EINTR.load(SeqCst),
        READ_FIRED_EIO.load(SeqCst),
    )
}

#[no_mangle]
pub unsafe extern "C" fn read(fd: libc::c_int, buf: *mut libc::c_void, count: libc::size_t) -> libc::ssize_t {
    let mut count = count;
    if READ_ARMED.load(SeqCst) && fd > 2 {
        let mut st: libc::stat = std::mem::zeroed();
        if libc::syscall(libc::SYS_fstat, fd as libc::c_long, &mut st as *mut libc::stat) == 0
            && (st.st_mode & libc::S_IFMT) == libc::S_IFREG
            && st.st_dev as u64 == READ_DEV.load(SeqCst)
        {
            READ_CALLS.fetch_add(1, SeqCst);
            let s = READ_STATE.fetch_add(0x9e3779b97f4a7c15, SeqCst).wrapping_add(0x9e3779b97f4a7c15);
            let r = mix(s);
            let roll = r % 1000;
            let eio = READ_EIO.load(SeqCst);
            let eintr = READ_EINTR.load(SeqCst);
            let short = READ_SHORT.load(SeqCst);
            if roll < eio {
                READ_FIRED_EIO.fetch_add(1, SeqCst);
                *libc::__errno_location() = libc::EIO;
                return -1;
            } else if roll < eio + eintr {
                READ_FIRED_EINTR.fetch_add(1, SeqCst);
                *libc::__errno_location() = libc::EINTR;
                return -1;
            } else if roll < eio + eintr + short && count > 1 {
                let c = 1 + ((r >> 20) as usize % (count - 1));
                if c < count {
                    READ_FIRED_SHORT.fetch_add(1, SeqCst);
                    count = c;
                }
            }
        }
    }
    libc::syscall(libc::SYS_read, fd as libc::c_long, buf, count) as libc::ssize_t
}

// ------------------------------------------------------------------------------------------
// self-test: every seam must be live, or the harness refuses to judge anything (exit 2)
// ------------------------------------------------------------------------------------------
pub fn selftest() -> Result<(), String> {
    // clock
    clock_arm(&[(1_000_000_000, 123), (1_000_000_005, 7)]);
    let a = chrono::Utc::now();
    let b = chrono::Utc::now();
    let c = chrono::Utc::now();
    let reads = clock_disarm();
    if a.timestamp() != 1_000_000_000 || a.timestamp_subsec_nanos() != 123 {
        return Err(format!("clock seam dead: Utc::now() = {:?}", a));
    }
    if b.timestamp() != 1_000_000_005 || c.timestamp() != 1_000_000_005 || reads != 3 {
        return Err(format!("clock script not followed: {:?} {:?} reads={}", b, c, reads));
    }
    let real = chrono::Utc::now();
    if real.timestamp() < 1_600_000_000 {
        return Err("clock does not forward when disarmed".into());
    }
    // hash
    fn order(seed: u64) -> Vec<u32> {
        hash_seed(seed);
        std::thread::spawn(|| {
            let mut m = std::collections::HashMap::new();
            for i in 0..16u32 {
                m.insert(i, ());
            }
            m.keys().copied().collect::<Vec<_>>()
        })
        .join()
        .unwrap()
    }
    let o1 = order(1);
    let o1b = order(1);
    let mut differs = false;
    for s in 2..10 {
        if order(s) != o1 {
            differs = true;
        }
    }
    if o1 != o1b {
        return Err("hash seam dead: same injected keys gave different iteration orders".into());
    }
    if !differs {
        return Err("hash seam dead: different injected keys gave identical iteration orders".into());
    }
    Ok(())
}

pub fn selftest_read(scratch: &std::path::Path) -> Result<(), String> {
    use std::io::Read;
    use std::os::unix::fs::MetadataExt;
    let p = scratch.join("selftest-read");
    std::fs::write(&p, vec![7u8; 5000]).map_err(|e| format!("tmpfs not writable: {e}"))?;
    let dev = std::fs::metadata(&p).map_err(|e| e.to_string())?.dev();
    read_arm(dev, 1, 0, 0, 1000);
    let r = std::fs::File::open(&p).and_then(|mut f| {
        let mut v = Vec::new();
        f.read_to_end(&mut v)
    });
    let (calls, _, _, eio) = read_disarm();
    let _ = std::fs::remove_file(&p);
    if r.is_ok() || calls == 0 || eio == 0 {
        return Err(format!("read seam dead: result={:?} calls={} eio={}", r.map(|n| n), calls, eio));
    }
    Ok(())
}
