#!/usr/bin/env python3
"""Regenerates /verif/MANIFEST.json from the table below (kept here so the manifest stays consistent)."""
import json, sys

NA = {
 "C10": "canonical JSON encoding is a pure function of one JSON value: no schedule, clock, fault, party or history occurs in it, so there is nothing for a simulator to schedule or inject (DESIGN §4)",
 "C11": "equality of two pure encoders on every string; deciding it needs a second reference encoder and input enumeration, not a simulated execution (DESIGN §4)",
 "C12": "key identifiers and SPKI import/export are pure functions of key material; an aliased key table is an owner-authored input, not a fault (DESIGN §4)",
 "C16": "parse∘serialize = id on values: with no fault injected the 'wire' adds nothing, and with one the property no longer speaks (DESIGN §4)",
 "C19": "version detection and (de)serialization of statements/predicates are pure functions of one document (DESIGN §4)",
 "C20": "pre-authentication encoding pack/unpack are pure byte-string functions in a private module; no time, I/O, concurrency or multi-party behaviour to simulate (DESIGN §4)",
}

CHECKS = {
 "C01": ("exploration", "seeded simulation of owners/verifier: signer subsets, caller key-set classes, forged/corrupted/edited layout, storage faults; necessary-condition oracle from symbolic ground truth",
         "Sampling over seeded worlds (all key types), each an accepting baseline plus 1-3 faults; Ok with a false necessary condition is a violation. Exploration level: the input space is unbounded and the oracle is one-directional, as the property is.", "§3 C01"),
 "C02": ("exploration", "seeded multi-party simulation: who signs what, misfiled/duplicated/lost/corrupted link files, Byzantine signers; counting oracle from ground truth",
         "Sampling over seeded populations of the link directory; the verifier must not accept when fewer than max(threshold,1) distinct authorized, listed keys validly signed evidence for some step.", "§3 C02"),
 "C07": ("exploration", "seeded multi-party simulation with a dissenting authorized signer (one among 2-9), link directories updated in place / delivered as symbolic links / read under EIO, and pipeline runs in which one step is really carried out by two functionaries on their own copies of the hand-over; agreement oracle from ground truth",
         "Sampling over steps with threshold >= 2 where one validly signing functionary reports one path/digest/algorithm/entry differently.", "§3 C07"),
 "C13": ("exploration", "seeded schedule exploration: hash-map keys injected through the getrandom seam, file and directory-entry creation order, short reads / EINTR on every other repetition, the same world in a directory that held another world a moment ago vs. a fresh one; N repetitions of one world must agree",
         "Each world is verified 12 (quick) / 48 (thorough) times in fresh threads with different injected hash keys and arrival orders; no model involved.", "§3 C13"),
 "C15": ("exploration", "seeded simulation of delegation trees with faults inside the delegated level and misdelivered inner links; recursive necessary-condition oracle plus summary membership",
         "Sampling over delegation trees of depth 1-2; Ok while the delegated level cannot pass against its own sub-directory is a violation; the returned summary must come from counting first/last-step evidence.", "§3 C15"),
 "C06": ("fault_enumeration", "simulated wall clock (clock_gettime seam): grid of expiry-vs-clock offsets x UTC-offset notations x verifier instants x delegation depth x clock jumps per sampled world",
         "Per sampled world the whole grid of clock faults is enumerated; the oracle converts the expiry text with its own civil-date arithmetic and compares with the simulated instants.", "§3 C06"),
 "C08": ("fault_enumeration", "real inspection processes (scripted actor) under an enumerated grid of failing verification stage x process outcome, plus pipeline runs (chain really executed, inspection over the delivered product, its rules judged by the reference model); event log of actor starts, directory listing and verdict",
         "Per sampled world every failing stage is combined with every inspection outcome; the actor's own event log is the witness of whether it was started.", "§3 C08"),
 "C14": ("exploration", "storage and stream fault injection (torn, flipped, overwritten, garbage, wrong-kind, EISDIR, dangling files; Byzantine-but-signed content; faulting readers) with panic/abort/hang detection in watched worker processes",
         "Every library call runs under catch_unwind inside a watched worker process; any panic, abort, stack overflow or watchdog expiry is a violation. Scoped to the surfaces faults reach (DESIGN §3 C14).", "§3 C14"),
 "C03": ("exploration", "differential simulation: generated rule lists over step histories with in-transit artifact faults, and (one run in sixteen) the whole chain really carried out inside the simulator — in_toto_run per step in workspaces on tmpfs with scripted commands, an artifact transport that tampers / injects / removes / renames, delivery to the verifier, in_toto_verify — judged both ways against an executable reference model of the specification's rule algorithm evaluated on the harness's own snapshots",
         "Two-sided comparison of the verifier's rule verdict with the reference model on the portable glob subset; weakest fit of the family for this property, stated in DESIGN §3.", "§3 C03"),
 "C04": ("exploration", "signing-ceremony simulation: duplicated/reordered/lost/forged/mislabelled signature messages, hash-iteration schedules; counting model, both directions",
         "Sampling over ceremonies with all key types; soundness and (for at most one signature per key) completeness under every sampled hash schedule and permutation.", "§3 C04"),
 "C05": ("fault_enumeration", "post-signing edit of every leaf of every stored signed document plus the property's near-collision edits; parsed-inequality => signatures fail",
         "Per sampled document every leaf is edited once (enumeration of the fault space per document); documents are sampled.", "§3 C05"),
 "C09": ("exploration", "signing ceremony with a wire trip through simulated storage/streams: must verify; key substitution, signature bit flips, scheme relabel must not",
         "Sampling over bodies (text pool incl. control/non-BMP characters), key types, construction paths and JSON layouts.", "§3 C09"),
 "C17": ("exploration", "channel simulation: byte-stream chunking/EINTR schedules and transport re-spelling; all decoding channels must agree",
         "Sampling over documents x re-spellings x chunk schedules; differential between channels, no model.", "§3 C17"),
 "C18": ("exploration", "recorder simulation: generated file-system histories and scripted step commands, read(2) faults, and pipeline runs (every step's recorded link compared with the harness's own snapshots of its workspace before and after the command); independent walk and one-shot digests as oracle",
         "Sampling over trees/histories; fault-free and fault-injecting configurations are judged separately (narrow relaxation under read faults).", "§3 C18"),
}

built = sys.argv[1:] if len(sys.argv) > 1 else sorted(CHECKS)
checks = []
for cid in sorted(CHECKS):
    if cid not in built:
        continue
    cat, tech, text, ref = CHECKS[cid]
    checks.append({
        "property_id": cid,
        "quick_cmd": f"./check {cid} quick",
        "thorough_cmd": f"./check {cid} thorough",
        "evidence_file": f"/verif/evidence/{cid}.json",
        "replay_cmd_template": "sim/target/release/scsim replay {path}",
        "engine": "scsim",
        "level_claimed": {"category": cat, "text": text, "design_ref": "DESIGN.md " + ref},
        "level_note": "A third of the seed blocks run their verifications on one long-lived thread per worker (thread-local state of the library carries over), the rest in a fresh thread per call (seeded hash-map keys). Trusted: the harness (sim/src), the reference model (sim/src/refmodel.rs), unforgeability of the signature schemes, the libc-symbol seams (self-tested at every start). ring's signing entropy is not controllable; verdicts do not depend on it.",
        "technique": "deterministic simulation with fault injection: " + tech,
    })
na = [{"property_id": k, "reason": v} for k, v in sorted(NA.items())]
for cid in sorted(CHECKS):
    if cid not in built:
        na.append({"property_id": cid, "reason": "check not built yet in this round (planned: DESIGN.md " + CHECKS[cid][3] + "); not claimed until it exists"})
m = {
 "version": 1,
 "setup_cmd": "cd /verif/sim && CARGO_NET_OFFLINE=true cargo build --release --offline",
 "hooks": {
   "guard": "in_toto_rs_verif",
   "enable": "none needed: all seams are outside the crate (libc symbols clock_gettime/getrandom/read defined in the harness executable, public Read/Write parameters, tmpfs directories, scripted child process)",
   "baseline_off_cmd": "cd /repo && cargo test --workspace --no-fail-fast --offline",
   "source_commits": [],
   "add_only": True,
 },
 "engines": [{"name": "scsim", "path": "/verif/sim", "serves_properties": [c["property_id"] for c in checks],
              "kind_free_text": "seeded deterministic simulator in Rust linked against /repo by path; worker processes, libc-symbol seams, scripted actor processes, reference model, delta-debugging minimiser, replay files"}],
 "checks": checks,
 "not_applicable": na,
 "notes": "Exit codes: 0 held, 1 VIOLATION, 2 harness error. VERIF_SEED / VERIF_TIER are honoured. Known and fixed findings: /verif/known_findings.json. Replay: sim/target/release/scsim replay <file>.",
}
json.dump(m, open("/verif/MANIFEST.json", "w"), indent=1)
print("wrote MANIFEST.json with", len(checks), "checks;", len(na), "not claimed")
